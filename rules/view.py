"""Function views: a function together with the closures it creates, each closure evaluated in the
context of its creation site (up-vars bound, parameters bound by a model of the combinator that
receives it).  Also payload/Try normalisation and accessor inlining."""
from . import core
from .core import Terms, Callee, norm, mk_phi, walk

OPTION = "core::option::Option"
RESULT = "core::result::Result"
CFLOW = "core::ops::ControlFlow"

# combinator -> how closure parameters are bound.  'payload' = Some/Ok payload of the receiver,
# 'payload_ref' idem (by reference), 'item' = an element produced by the receiver iterator,
# 'elem2' = two elements of the receiver slice, 'none' = no parameters, 'errpayload'.
COMBINATORS = {
    "core::option::Option::map": ("payload",),
    "core::option::Option::and_then": ("payload",),
    "core::option::Option::filter": ("payload",),
    "core::option::Option::map_or": ("payload",),
    "core::option::Option::map_or_else": ("none", "payload"),
    "core::option::Option::ok_or_else": ("none",),
    "core::option::Option::unwrap_or_else": ("none",),
    "core::option::Option::is_some_and": ("payload",),
    "core::option::Option::or_else": ("none",),
    "core::result::Result::map": ("payload",),
    "core::result::Result::map_err": ("errpayload",),
    "core::result::Result::and_then": ("payload",),
    "core::result::Result::unwrap_or_else": ("errpayload",),
    "core::bool::then": ("none",),
    "core::cmp::Ordering::then_with": ("none",),
    "core::iter::Iterator::map": ("item",),
    "core::iter::Iterator::filter": ("item",),
    "core::iter::Iterator::find": ("item",),
    "core::iter::Iterator::find_map": ("item",),
    "core::iter::Iterator::for_each": ("item",),
    "core::iter::Iterator::fold": ("acc", "item"),
    "core::iter::Iterator::any": ("item",),
    "core::iter::Iterator::all": ("item",),
    "core::iter::Iterator::position": ("item",),
    "core::iter::Iterator::take_while": ("item",),
    "core::iter::Iterator::skip_while": ("item",),
    "core::iter::Iterator::filter_map": ("item",),
    "core::iter::Iterator::flat_map": ("item",),
    "core::slice::sort_unstable_by": ("elem", "elem"),
    "core::slice::sort_by": ("elem", "elem"),
    "alloc::slice::sort_by": ("elem", "elem"),
    "core::slice::sort_by_key": ("elem",),
    "core::slice::sort_unstable_by_key": ("elem",),
}


def combinator_model(key):
    base = core.callee_base(key)
    if base in COMBINATORS:
        return COMBINATORS[base]
    # impl-qualified forms, e.g. core::iter::Iterator::map@core::iter::Enumerate
    return None


def payload(t):
    """Some/Ok/Continue payload of an option-like term"""
    return pnorm(("field", ("variant", t, "Some"), OPTION, "0"))


def pnorm(t, _memo=None):
    """norm + payload/Try simplification:
       (X as Some).0, (X as Ok).0, (branch(X) as Continue).0, unwrap(X)  ->  ('payload', X)
       payload(Some{x}) -> x ; payload(NonZero::new(x)) -> x ; payload(phi) distributes"""
    if _memo is None:
        _memo = {}
    t = norm(t)
    return _p(t, _memo)


UNWRAPS = {"core::option::Option::unwrap", "core::option::Option::expect",
           "core::option::Option::unwrap_unchecked", "core::result::Result::unwrap",
           "core::result::Result::expect", "core::result::Result::unwrap_unchecked",
           "core::option::Option::unwrap_or_default"}
WRAP_SOME = {"core::num::NonZero::new", "core::num::NonZero::new_unchecked"}


def mk_payload(x):
    k = x[0]
    if k == "agg" and x[1] in (OPTION, RESULT) and x[2] in ("Some", "Ok"):
        return x[3][0][1]
    if k == "agg" and ((x[1] == OPTION and x[2] == "None") or (x[1] == RESULT and x[2] == "Err")):
        # the Some/Ok payload of a None/Err literal does not exist (infeasible member of a joined value)
        return ("undef",)
    if k == "call" and isinstance(x[1], str) and core.callee_base(x[1]) in WRAP_SOME:
        return x[2][0]
    if k == "call" and isinstance(x[1], str) and core.callee_base(x[1]) == "core::ops::Try::branch":
        return mk_payload(x[2][0])
    if k == "call" and isinstance(x[1], str) and core.callee_base(x[1]) in (
            "core::convert::TryFrom::try_from", "core::convert::TryInto::try_into") and len(x[2]) == 1:
        # integer conversion: value preserving on the Ok path
        return x[2][0]
    if k == "some":
        return x[1]
    if k == "call" and isinstance(x[1], str) and len(x[2]) == 2 and core.callee_base(x[1]).startswith("core::num::") and \
            core.callee_base(x[1]).split("::")[-1] in ("checked_add", "checked_sub", "checked_mul"):
        # the Some payload of a.checked_op(b) is a op b
        op = {"checked_add": "Add", "checked_sub": "Sub", "checked_mul": "Mul"}[core.callee_base(x[1]).split("::")[-1]]
        return core.norm(("bin", op, x[2][0], x[2][1]))
    if k == "call" and isinstance(x[1], str) and core.callee_base(x[1]) == "core::slice::get" and len(x[2]) == 2:
        # the Some payload of c.get(i) is the element c[i]
        return ("elem", x[2][0], x[2][1])
    if k == "call" and isinstance(x[1], str) and core.callee_base(x[1]) in (
            "core::result::Result::map_err", "core::option::Option::ok_or_else", "core::option::Option::ok_or",
            "core::result::Result::or_else", "core::option::Option::filter") and x[2]:
        return mk_payload(x[2][0])
    if k == "residual":
        return ("undef",)
    if k == "mutby" and core.callee_base(x[1]) in ("core::option::Option::replace", "core::option::Option::insert",
                                                    "core::option::Option::get_or_insert"):
        return x[2][1]
    if k == "phi":
        return mk_phi([mk_payload(y) for y in x[1]])
    return ("payload", x)


def _p(t, memo):
    if t in memo:
        return memo[t]
    r = _p1(t, memo)
    memo[t] = r
    return r


def _p1(t, memo):
    k = t[0]
    p = lambda x: _p(x, memo)
    if k == "field":
        base = t[1]
        if base[0] == "variant" and base[2] in ("Some", "Ok", "Continue") and t[3] == "0" and \
                t[2] in (OPTION, RESULT, CFLOW):
            return mk_payload(p(base[1]))
        return core.field_of(p(base), t[2], t[3])
    if k == "variant":
        return core.variant_of(p(t[1]), t[2])
    if k == "call":
        args = tuple(p(a) for a in t[2])
        key = t[1]
        if isinstance(key, str) and core.callee_base(key) in UNWRAPS:
            return mk_payload(args[0])
        if isinstance(key, str) and core.callee_base(key) == "core::ops::FromResidual::from_residual":
            return ("residual", args[0])
        if isinstance(key, str) and core.callee_base(key) in ("core::ops::Index::index", "core::ops::IndexMut::index_mut") \
                and len(args) == 2:
            return ("elem", args[0], args[1])
        if isinstance(key, tuple):
            key = ("indirect", p(key[1]))
        return ("call", key, args, t[3])
    if k == "mutby":
        return ("mutby", t[1], tuple(p(a) for a in t[2]), t[3], t[4])
    if k == "elem":
        return ("elem", p(t[1]), p(t[2]))
    if k in ("bin", "ovf"):
        a, b = p(t[2]), p(t[3])
        if t[1] in core.COMM and repr(b) < repr(a):
            a, b = b, a
        return (k, t[1], a, b)
    if k in ("un",):
        return (k, t[1], p(t[2]))
    if k in ("discr", "rawptr", "len"):
        return (k, p(t[1]))
    if k == "cast":
        return ("cast", p(t[1]), t[2], t[3])
    if k == "agg":
        return ("agg", t[1], t[2], tuple((f, p(v)) for f, v in t[3]))
    if k in ("tuple", "array"):
        return (k, tuple(p(x) for x in t[1]))
    if k == "closure":
        return ("closure", t[1], tuple(p(x) for x in t[2]))
    if k == "phi":
        return mk_phi([p(x) for x in t[1]])
    if k == "payload":
        return mk_payload(p(t[1]))
    return t


class BodyView:
    """one body (function or closure) with its bound term builder"""

    def __init__(self, body, terms, parent=None, via=None):
        self.body = body
        self.T = terms
        self.parent = parent      # BodyView of the creator
        self.via = via            # (bb in parent, combinator key) the closure was passed to

    def op(self, o):
        return pnorm(self.T.operand(o))

    def place(self, p):
        return pnorm(self.T.place(p))

    def ret(self):
        return pnorm(self.T.local(0))


class FnView:
    """a function and, transitively, the closures created in it"""

    def __init__(self, crate, body, bind=None):
        self.crate = crate
        self.root = BodyView(body, Terms(body, bind=bind))
        self.views = [self.root]
        self.opaque_closures = []
        self._expand(self.root)

    def _expand(self, bv):
        b = bv.body
        # closure aggregates created in this body: local -> (path, upvar terms)
        created = {}
        for bi, si, st in b.stmts():
            if st["k"] == "assign" and st["rv"]["k"] == "aggregate" and st["rv"].get("akind") == "closure":
                path = st["rv"]["closure"]
                ups = tuple(bv.T.operand(o) for o in st["rv"]["ops"])
                created[path] = (bi, ups)
        used = set()
        for bi, c, t in b.calls():
            model = combinator_model(c.key)
            clos_args = []
            for ai, a in enumerate(t["args"]):
                ta = norm(bv.T.operand(a))
                if ta[0] == "closure":
                    clos_args.append((ai, ta))
            if not clos_args:
                continue
            recv = pnorm(bv.T.operand(t["args"][0])) if t["args"] else ("undef",)
            for ai, ta in clos_args:
                cb = self.crate.bodies.get(ta[1])
                if cb is None:
                    continue
                used.add(ta[1])
                bind = {}
                if model is None:
                    self.opaque_closures.append((b, bi, c.key, ta[1]))
                else:
                    for pi, how in enumerate(model):
                        l = 2 + pi
                        if how == "payload":
                            bind[l] = mk_payload(recv)
                        elif how == "errpayload":
                            bind[l] = ("errpayload", recv)
                        elif how == "item":
                            bind[l] = ("item", recv)
                        elif how == "elem":
                            bind[l] = ("elemof", recv)
                        elif how == "acc":
                            bind[l] = ("acc", recv)
                T = Terms(cb, bind=bind, upvars=ta[2])
                v = BodyView(cb, T, parent=bv, via=(bi, c.key))
                self.views.append(v)
                self._expand(v)
        for path, (bi, ups) in created.items():
            if path not in used:
                cb = self.crate.bodies.get(path)
                if cb is not None:
                    # closure created but passed somewhere we do not model (stored, returned…)
                    self.opaque_closures.append((b, bi, "(unmodelled use)", path))
                    v = BodyView(cb, Terms(cb, upvars=ups), parent=bv, via=(bi, "?"))
                    self.views.append(v)
                    self._expand(v)

    def calls(self, pred=None):
        """[(BodyView, bb, Callee, term_json)]"""
        out = []
        for v in self.views:
            for bi, c, t in v.body.calls():
                if pred is None or pred(c):
                    out.append((v, bi, c, t))
        return out

    def closure_ret(self, path):
        for v in self.views:
            if v.body.path == path:
                return v.ret()
        return None

    def resolve(self, t):
        """replace Option/Result combinator calls that take a closure by the value they produce"""
        return resolve_combinators(t, self)


def resolve_combinators(t, fv, depth=0):
    if depth > 20:
        return t
    k = t[0]
    r = lambda x: resolve_combinators(x, fv, depth + 1)
    if k == "call":
        key = t[1]
        args = tuple(r(a) for a in t[2])
        if isinstance(key, str):
            base = core.callee_base(key)
            clos = [a for a in args if a[0] == "closure"]
            if clos and base in ("core::option::Option::map", "core::result::Result::map"):
                cr = fv.closure_ret(clos[0][1])
                if cr is not None:
                    return ("some", r(cr))
            if clos and base in ("core::option::Option::and_then", "core::result::Result::and_then"):
                cr = fv.closure_ret(clos[0][1])
                if cr is not None:
                    return r(cr)
            if clos and base == "core::option::Option::filter":
                return args[0]
            if clos and base in ("core::option::Option::unwrap_or_else", "core::result::Result::unwrap_or_else"):
                # the payload when there is one, else what the closure computes
                cr = fv.closure_ret(clos[0][1])
                if cr is not None:
                    return mk_phi([mk_payload(args[0]), r(cr)])
            if clos and base == "core::iter::Iterator::find_map":
                # Some(x) exactly when the closure returned Some(x) for some item
                cr = fv.closure_ret(clos[0][1])
                if cr is not None:
                    return r(cr)
            if clos and base == "core::option::Option::map_or":
                cr = fv.closure_ret(clos[0][1])
                if cr is not None:
                    return mk_phi([args[1], r(cr)])
        return ("call", key, args, t[3])
    if k == "phi":
        return mk_phi([r(x) for x in t[1]])
    if k == "payload":
        return mk_payload(r(t[1]))
    if k == "some":
        return ("some", r(t[1]))
    if k == "field":
        return core.field_of(r(t[1]), t[2], t[3])
    if k == "variant":
        return core.variant_of(r(t[1]), t[2])
    if k in ("bin", "ovf"):
        return (k, t[1], r(t[2]), r(t[3]))
    if k == "cast":
        return ("cast", r(t[1]), t[2], t[3])
    if k == "agg":
        return ("agg", t[1], t[2], tuple((f, r(v)) for f, v in t[3]))
    if k in ("tuple", "array"):
        return (k, tuple(r(x) for x in t[1]))
    if k == "elem":
        return ("elem", r(t[1]), r(t[2]))
    return t


# ----------------------------------------------------------------------------- accessor inlining

def ret_term(crate, body_path, args, depth=0, _cache={}):
    """return term of a crate-local function with parameters substituted (closures resolved)"""
    b = crate.bodies.get(body_path)
    if b is None or depth > 8:
        return None
    bind = {i + 1: a for i, a in enumerate(args)}
    fv = FnView(crate, b, bind=bind)
    return fv.resolve(fv.root.ret())


def inline_calls(crate, t, which, depth=0):
    """inline calls whose key satisfies `which(key)` (crate-local callees) by their return term"""
    if depth > 8:
        return t
    k = t[0]
    r = lambda x: inline_calls(crate, x, which, depth)
    if k == "call":
        args = tuple(r(a) for a in t[2])
        key = t[1]
        if isinstance(key, str) and which(key):
            site_body = crate.bodies.get(t[3][0])
            if site_body is not None:
                tj = site_body.blocks[t[3][1]]["term"]
                c = Callee(tj["func"]["fn"])
                bp = c.body_path
                if bp and bp in crate.bodies:
                    rt = ret_term(crate, bp, args, depth + 1)
                    if rt is not None:
                        return inline_calls(crate, pnorm(rt), which, depth + 1)
        return ("call", key, args, t[3])
    if k == "phi":
        return mk_phi([r(x) for x in t[1]])
    if k == "payload":
        return mk_payload(r(t[1]))
    if k == "some":
        return ("some", r(t[1]))
    if k == "field":
        return core.field_of(r(t[1]), t[2], t[3])
    if k == "variant":
        return core.variant_of(r(t[1]), t[2])
    if k in ("bin", "ovf"):
        a, b = r(t[2]), r(t[3])
        return (k, t[1], a, b)
    if k == "un":
        return (k, t[1], r(t[2]))
    if k == "cast":
        return ("cast", r(t[1]), t[2], t[3])
    if k == "agg":
        return ("agg", t[1], t[2], tuple((f, r(v)) for f, v in t[3]))
    if k in ("tuple", "array"):
        return (k, tuple(r(x) for x in t[1]))
    if k == "elem":
        return ("elem", r(t[1]), r(t[2]))
    if k == "mutby":
        return ("mutby", t[1], tuple(r(a) for a in t[2]), t[3], t[4])
    return t
