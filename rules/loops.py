"""Loop trip counts, independent of the source form.

   for _ in 0..n { body }                          pull from Range{0, n}
   let mut r = n; while r != 0 { body; r -= 1 }    count-down (also `r > 0`)
   let mut i = 0; while i < n { body; i += 1 }     count-up   (also `i != n`)
`trip_count(S, bb)` returns the term n when the innermost loop around block `bb` runs its body exactly n times, else None.
The counter update must lie on every path from the loop test back to itself (an update under a condition is not a count)."""
from . import core
from .view import pnorm
from .pat import m, ANY, K, B, Phi, iter_origin
from .search import switches_on, opt_arms, bool_arms, is_const

ITER_NEXT = "core::iter::Iterator::next"


def _counter_defs(b, local):
    return [(bi, st) for bi, si, st in b.stmts() if st["k"] == "assign" and not st["lhs"]["proj"] and st["lhs"]["local"] == local]


def trip_count(S, bb):
    root = S.root
    b = root.body
    # form 1: a pull from 0..n that dominates bb inside the same cycle
    for s in S.calls:
        if s["vw"] is root and core.callee_base(s["key"]) == ITER_NEXT and b.in_cycle(s["bb"]) and b.dominates(s["bb"], bb):
            r = iter_origin(s["args"][0])
            if r[0] == "agg" and r[1] == "core::ops::Range":
                f = dict(r[3])
                if is_const(f["start"], 0):
                    psw = switches_on(root, lambda d: d[0] == "discr" and d[1][0] == "call" and d[1][3] == (b.path, s["bb"]))
                    if len(psw) == 1 and b.edge_guards((psw[0][0], opt_arms(psw[0][1])[0]), bb):
                        return f["end"]
    # forms 2/3: a comparison switch on a counter
    for sbi, stj, d in switches_on(root, lambda d: d[0] == "bin" and d[1] in ("Ne", "Eq", "Lt", "Gt", "Le", "Ge")):
        if not (b.in_cycle(sbi) and b.dominates(sbi, bb)):
            continue
        tt, ff = bool_arms(stj)
        op, x, y = d[1], d[2], d[3]
        down = Phi(B("Sub", ANY, K(1)), ANY, req=[0, 1])
        up = Phi(B("Add", ANY, K(1)), K(0), req=[0, 1])
        n = None
        body_arm = None
        cnt = None
        # count-down: r != 0 / r > 0 / 0 < r  (body on the true arm), r == 0 (body on the false arm)
        if x[0] == "phi" and m(down, x) and is_const(y, 0) and op in ("Ne", "Gt", "Eq"):
            starts = [t for t in x[1] if not (t[0] == "bin" and t[1] == "Sub") and t[0] != "loop"]
            if len(starts) == 1:
                n, cnt, body_arm = starts[0], x, (ff if op == "Eq" else tt)
        elif y[0] == "phi" and m(down, y) and is_const(x, 0) and op in ("Ne", "Lt", "Eq"):
            starts = [t for t in y[1] if not (t[0] == "bin" and t[1] == "Sub") and t[0] != "loop"]
            if len(starts) == 1:
                n, cnt, body_arm = starts[0], y, (ff if op == "Eq" else tt)
        # count-up: i < n / i != n (true arm), i == n / i >= n (false arm)
        elif x[0] == "phi" and m(up, x) and op in ("Lt", "Ne", "Eq", "Ge"):
            n, cnt, body_arm = y, x, (ff if op in ("Eq", "Ge") else tt)
        elif y[0] == "phi" and m(up, y) and op in ("Gt", "Ne", "Eq", "Le"):
            n, cnt, body_arm = x, y, (ff if op in ("Eq", "Le") else tt)
        if n is None or body_arm is None or not b.edge_guards((sbi, body_arm), bb):
            continue
        # the counter local and its in-loop update
        # locate the update statements: assignments `c = c +/- 1` inside the cycle
        upd = []
        for bi, si, st in b.stmts():
            if st["k"] == "assign" and not st["lhs"]["proj"] and b.in_cycle(bi):
                t = pnorm(root.T.rvalue(st["rv"]))
                if t[0] in ("bin", "ovf") and t[1] in ("Add", "Sub") and is_const(t[3], 1) and core.same(t[2], cnt):
                    upd.append(bi)
                elif t[0] == "field" and t[1][0] == "ovf" and t[1][1] in ("Add", "Sub") and is_const(t[1][3], 1) and core.same(t[1][2], cnt):
                    upd.append(bi)
        if not upd:
            continue
        # every path from the body head back to the test passes an update
        if sbi in b.reach(body_arm, avoid_blocks=upd):
            continue
        return n
    return None
