"""Obligation bookkeeping, known findings, evidence and the VIOLATION protocol."""
import json
import os
import time

from . import core

VERIF = core.VERIF


class Ctx:
    def __init__(self, prop, crates, tier="quick"):
        self.prop = prop
        self.crates = crates
        self.lib = crates["daachorse"]
        self.cli = crates.get("daacfind")
        self.tier = tier
        self.obl = []          # obligation records
        self.info = {}         # extra evidence (inventories …)
        self.rules_run = []
        self._seen_keys = set()

    # ---- recording ---------------------------------------------------------------
    def _rec(self, status, rule, fn, role, loc, detail, term=None):
        key = "%s|%s|%s|%s" % (self.prop, rule, fn, role)
        # the same obligation reached twice (e.g. via two views) is recorded once
        k2 = (key, status, detail)
        if k2 in self._seen_keys:
            return
        self._seen_keys.add(k2)
        self.obl.append({
            "rule": rule, "fn": fn, "role": role, "loc": loc, "status": status,
            "detail": detail, "key": key, **({"term": term} if term else {}),
        })

    def ok(self, rule, fn, role, loc="", detail="", term=None):
        self._rec("ok", rule, fnkey(fn), role, loc, detail, term)

    def bad(self, rule, fn, role, loc="", detail="", term=None):
        self._rec("violation", rule, fnkey(fn), role, loc, detail, term)

    def missing(self, rule, role, detail=""):
        """anchor-missing: a rule's subject could not be resolved -> fail closed"""
        self._rec("violation", rule, "-", "anchor-missing:" + role, "", detail or
                  "role `%s` could not be resolved in the current tree" % role)

    def check(self, cond, rule, fn, role, loc="", detail="", term=None):
        if cond:
            self.ok(rule, fn, role, loc, detail, term)
        else:
            self.bad(rule, fn, role, loc, detail, term)
        return cond

    def note(self, k, v):
        self.info[k] = v

    def only(self, rules):
        """context manager: keep only obligations of the given rule ids among those recorded inside the block"""
        ctx = self

        class _F:
            def __enter__(self_):
                self_.n = len(ctx.obl)

            def __exit__(self_, *a):
                kept = [o for o in ctx.obl[self_.n:] if o["rule"] in rules or o["role"].startswith("anchor-missing")]
                del ctx.obl[self_.n:]
                ctx.obl.extend(kept)
                return False
        return _F()


def fnkey(fn):
    if isinstance(fn, core.Body):
        return fn.key
    return core.strip_generics(fn) if isinstance(fn, str) else str(fn)


def load_known():
    p = os.path.join(VERIF, "known_findings.json")
    if not os.path.exists(p):
        return []
    with open(p) as f:
        return json.load(f).get("findings", [])


def finish(ctx, t0, explanation, assumptions, trusted, extra=None, seed=0):
    """print report, write evidence, return exit code"""
    known = {k["key"]: k for k in load_known() if k.get("status") == "known"}
    viol = [o for o in ctx.obl if o["status"] == "violation"]
    oks = [o for o in ctx.obl if o["status"] == "ok"]
    real = []
    for v in viol:
        if v["key"] in known:
            print("KNOWN-FINDING: property=%s %s" % (ctx.prop, known[v["key"]].get("what", v["key"])))
        else:
            real.append(v)
    vdir = os.path.join(VERIF, "evidence", "violations")
    os.makedirs(vdir, exist_ok=True)
    # clear stale replay files of this property
    for fn in os.listdir(vdir):
        if fn.startswith(ctx.prop + "-"):
            os.remove(os.path.join(vdir, fn))
    for i, v in enumerate(real, 1):
        path = os.path.join(vdir, "%s-%d.json" % (ctx.prop, i))
        with open(path, "w") as f:
            json.dump(v, f, indent=1, default=str)
        print("%s %s %s %s %s: %s" % (ctx.prop, v["rule"], v["fn"], v["loc"], v["role"], v["detail"]))
        print("VIOLATION property=%s replay=%s" % (ctx.prop, path))
    distinct = len({(o["rule"], o["fn"], o["role"]) for o in oks})
    rules = sorted({o["rule"] for o in ctx.obl})
    samples = []
    seen_rules = set()
    for o in ctx.obl:
        if o["rule"] not in seen_rules or o["status"] == "violation":
            seen_rules.add(o["rule"])
            samples.append({k: o[k] for k in ("rule", "fn", "role", "loc", "status", "detail") if o.get(k)} |
                           ({"term": o["term"]} if o.get("term") else {}))
    cov = {
        "explanation": explanation,
        "evaluations": len(ctx.obl),
        "distinct_nontrivial": distinct,
        "rule": "one evaluation = one structural obligation (rule instance) evaluated at one site of "
                "/repo's current MIR; distinct+non-trivial = distinct (rule, function, role) triples that "
                "matched a real site and were discharged",
        "samples": samples[:60],
        "obligations": len(ctx.obl),
        "discharged": len(oks),
        "rules": rules,
        "per_rule": {r: sum(1 for o in ctx.obl if o["rule"] == r) for r in rules},
        "functions_analysed": len(ctx.lib.bodies) + (len(ctx.cli.bodies) if ctx.cli else 0),
        "crates": sorted(ctx.crates),
        "checker_cmd": "./check %s --tier %s" % (ctx.prop, ctx.tier),
        "trusted_base": trusted,
        "exhaustive": False,
        "known_findings_matched": [v["key"] for v in viol if v["key"] in known],
    }
    cov.update(ctx.info)
    if extra:
        cov.update(extra)
    ev = {
        "property_id": ctx.prop,
        "tier": ctx.tier,
        "seed": seed,
        "level": "other",
        "coverage": cov,
        "assumptions": assumptions,
        "wall_s": round(time.time() - t0, 3),
        "violations": len(real),
    }
    os.makedirs(os.path.join(VERIF, "evidence"), exist_ok=True)
    with open(os.path.join(VERIF, "evidence", ctx.prop + ".json"), "w") as f:
        json.dump(ev, f, indent=1, default=str)
    print("%s: %d obligations, %d discharged, %d violations (%d known) [%s]" % (
        ctx.prop, len(ctx.obl), len(oks), len(real), len(viol) - len(real), ", ".join(rules)))
    return 1 if real else 0
