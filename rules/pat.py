"""A small pattern language over provenance terms.

pattern := ANY | V("name") | K(value) | callable(term, env) -> bool | OneOf(p...) | Phi(p..., req=[...])
         | tuple of patterns/literals (structural; 'bin' with a commutative operator tries both orders)
Binding: V("x") binds on first use and must match (modulo loop markers) afterwards."""
from . import core

ANY = ("__any__",)


class V:
    def __init__(self, name):
        self.name = name


class OneOf:
    def __init__(self, *ps):
        self.ps = ps


class Phi:
    """every member of the (phi) term must match one of the options; options listed in `req`
    (indices) must be matched by at least one member"""

    def __init__(self, *ps, req=()):
        self.ps = ps
        self.req = set(req)


def K(v):
    return lambda t, env: t[0] == "const" and t[1] == v


def Par(i):
    return lambda t, env: t[0] == "param" and t[1] == i


def C(key, *args, site=None):
    """call with key (exact string, or callable on the key string) and argument patterns"""
    def f(t, env):
        if t[0] != "call" or not isinstance(t[1], str):
            return False
        if callable(key):
            if not key(t[1]):
                return False
        elif t[1] != key and core.callee_base(t[1]) != key:
            return False
        if len(args) != len(t[2]):
            return False
        if site is not None and t[3] != site:
            return False
        return all(m(p, a, env) for p, a in zip(args, t[2]))
    return f


def F(base, name, adt=None):
    def f(t, env):
        return t[0] == "field" and t[3] == name and (adt is None or t[2] == adt) and m(base, t[1], env)
    return f


def E(cont, idx):
    def f(t, env):
        return t[0] == "elem" and m(cont, t[1], env) and m(idx, t[2], env)
    return f


def P(x):
    def f(t, env):
        return t[0] == "payload" and m(x, t[1], env)
    return f


def B(op, a, b):
    def f(t, env):
        if t[0] != "bin" or t[1] != op:
            return False
        e1 = dict(env)
        if m(a, t[2], e1) and m(b, t[3], e1):
            env.update(e1)
            return True
        if op in core.COMM:
            e2 = dict(env)
            if m(a, t[3], e2) and m(b, t[2], e2):
                env.update(e2)
                return True
        return False
    return f


def m(p, t, env=None):
    if env is None:
        env = {}
    if p is ANY:
        return True
    if isinstance(p, V):
        if p.name in env:
            return core.same(env[p.name], t)
        env[p.name] = t
        return True
    if isinstance(p, OneOf):
        for q in p.ps:
            e = dict(env)
            if m(q, t, e):
                env.update(e)
                return True
        return False
    if isinstance(p, Phi):
        ms = list(t[1]) if t[0] == "phi" else [t]
        hit = set()
        for x in ms:
            if x[0] == "loop":
                continue
            ok = False
            for i, q in enumerate(p.ps):
                e = dict(env)
                if m(q, x, e):
                    env.update(e)
                    hit.add(i)
                    ok = True
                    break
            if not ok:
                return False
        return p.req <= hit
    if callable(p):
        return p(t, env)
    if isinstance(p, tuple):
        if not isinstance(t, tuple) or len(p) != len(t):
            return False
        return all(m(q, x, env) if isinstance(q, (tuple, V, OneOf, Phi)) or callable(q) else q == x
                   for q, x in zip(p, t))
    return p == t


ITER_NEXT_KEY = "core::iter::Iterator::next"


def iter_origin(r, peel_filter=True):
    """the iterator expression an item was pulled from: the loop-carried `mutby` members of the receiver phi (the iterator
    after earlier pulls) and into_iter()/by_ref() wrappers are dropped"""
    for _ in range(6):
        if r[0] == "phi":
            ms = [x for x in r[1] if x[0] not in ("mutby", "loop")]
            if len(ms) != 1:
                return r
            r = ms[0]
        elif r[0] == "call" and isinstance(r[1], str) and r[2] and (core.callee_base(r[1]) in (
                "core::iter::IntoIterator::into_iter", "core::iter::Iterator::by_ref") or
                (peel_filter and core.callee_base(r[1]) == "core::iter::Iterator::filter")):
            # (the items that pass a filter are items of the filtered iterator, unchanged)
            r = r[2][0]
        else:
            return r
    return r


def It(x, site=None):
    """an element produced by the iterator x: `payload(next(x))` of a for/while-let loop or the closure parameter of an
    iterator combinator (`item` term); both are the same value set"""
    def f(t, env):
        if t[0] == "item":
            if site is not None:
                return False
            r = t[1]
        elif t[0] == "payload" and t[1][0] == "call" and isinstance(t[1][1], str) and \
                core.callee_base(t[1][1]) == ITER_NEXT_KEY and len(t[1][2]) == 1:
            if site is not None and t[1][3] != site:
                return False
            r = t[1][2][0]
        else:
            return False
        return m(x, iter_origin(r), env)
    return f


def members(t):
    return list(t[1]) if t[0] == "phi" else [t]


ITER_WRAPPERS = ("core::slice::iter", "core::iter::Iterator::copied", "core::iter::Iterator::cloned", "alloc::vec::Vec::iter",
                 "core::iter::IntoIterator::into_iter", "core::iter::Iterator::by_ref")


def strip_iter(t):
    """the collection an iterator expression walks over, in order (iter(), copied(), cloned() peeled)"""
    while t[0] == "call" and isinstance(t[1], str) and core.callee_base(t[1]) in ITER_WRAPPERS and t[2]:
        t = t[2][0]
    return t
