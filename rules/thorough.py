"""Thorough tier (DESIGN §2.4): (a) second extraction without overflow checks / debug assertions must give the
same verdict, (b) compile-fail witnesses, (c) checker self-test on seeded breakages and benign refactors."""
import concurrent.futures
import json
import os
import re
import subprocess
import sys

from . import core, engine, roles as roles_mod

VERIF = core.VERIF
WITNESS = {
    "C07": ["CwFromIterIsUnsafe", "DeserializeIsUnsafe", "TablesArePrivate"],
    "C09": ["DeserializeIsUnsafe"],
    "C12": ["CwFromIterIsUnsafe"],
    "C14": ["SearchIsShared"],
    "C06": ["ValueIsOpaque"],
}


def second_config(ctx, prop, run, need_ws):
    crates = core.extract(workspace=need_ws, extra_rustflags="-C overflow-checks=off -C debug-assertions=off")
    from . import props as _props
    _props.normalise(crates)
    ctx2 = engine.Ctx(prop, crates, "thorough")
    R2 = roles_mod.Roles(ctx2)
    run(ctx2, R2)
    v1 = {o["key"] for o in ctx.obl if o["status"] == "violation"}
    n_new = 0
    for o in ctx2.obl:
        if o["status"] == "violation" and o["key"] not in v1:
            n_new += 1
            ctx.bad(o["rule"], o["fn"], o["role"] + "[cfg:no-overflow-checks]", o["loc"], o["detail"])
    ctx.note("second_config", {"rustflags": "-C overflow-checks=off -C debug-assertions=off", "obligations": len(ctx2.obl),
                               "violations_only_there": n_new,
                               "same_obligation_count": len(ctx2.obl) == len([o for o in ctx.obl])})


def witnesses(ctx, prop):
    names = WITNESS.get(prop)
    if not names:
        return
    wdir = os.path.join(VERIF, "witness")
    env = dict(os.environ, CARGO_NET_OFFLINE="true")
    res = {}
    for nm in names:
        p = subprocess.run(["cargo", "+nightly", "test", "--doc", "--offline", nm], cwd=wdir, env=env, capture_output=True, text=True)
        out = p.stdout + p.stderr
        mres = re.search(r"test result: (\w+)\. (\d+) passed; (\d+) failed", out)
        failed = re.findall(r"test (src/lib\.rs - \S+ \(line \d+\)[^\n]*?) \.\.\. FAILED", out)
        if not mres:
            ctx.bad("WITNESS", "witness::" + nm, "doctests-ran", "", "witness doctests did not run: %s" % out[-400:])
            continue
        npass, nfail = int(mres.group(2)), int(mres.group(3))
        res[nm] = {"passed": npass, "failed": nfail}
        ctx.check(nfail == 0 and npass > 0, "WITNESS", "witness::" + nm, "type-level-facts", "witness/src/lib.rs",
                  "compile_fail / compile-pass witnesses (as an external crate sees /repo): %d passed, %d failed %s" % (npass, nfail, failed[:3]))
    ctx.note("witness_doctests", res)


def selftest(ctx, prop, jobs=12):
    sys.path.insert(0, os.path.join(VERIF, "selftest"))
    import run as st  # selftest/run.py
    out = {}
    for kind, fn in (("mutants", "mutants.json"), ("benign", "benign.json")):
        path = os.path.join(VERIF, "selftest", fn)
        if not os.path.exists(path):
            continue
        specs = json.load(open(path))
        if kind == "mutants":
            specs = [s for s in specs if prop in (s.get("props") or [s["name"].split("-")[0]])]
        fired, missed, skipped = [], [], []
        with concurrent.futures.ProcessPoolExecutor(max_workers=jobs) as ex:
            futs = [(s, ex.submit(st.run_one, dict(s, props=[prop]), False, [prop])) for s in specs]
            for s, f in futs:
                name, status, res, d = f.result()
                if status != "ran":
                    skipped.append(name)
                    continue
                v = res.get(prop, [])
                if kind == "mutants":
                    (fired if v else missed).append(name)
                else:
                    (missed if v else fired).append(name)   # for benign: "fired" = stayed silent
        if kind == "mutants":
            out["selftest_fired"] = fired
            out["selftest_missed"] = missed
            out["selftest_skipped"] = skipped
        else:
            out["benign_silent"] = fired
            out["benign_false_alarm"] = missed
            out["benign_skipped"] = skipped
    # the sub-agents' corpora: every kept seed of this property must fire, every benign refactoring must stay silent on it
    import glob
    seeds = sorted(d for d in glob.glob(os.path.join(VERIF, "seeded", "*")) if os.path.isdir(d) and
                   os.path.basename(d).split("-")[0] == prop and os.path.exists(os.path.join(d, "patch.diff")))
    bpatches = sorted(d for d in glob.glob(os.path.join(VERIF, "selftest", "benign_patches", "*")) if os.path.exists(os.path.join(d, "patch.diff")))
    sf, sm, ss, bs, ba, bk = [], [], [], [], [], []
    with concurrent.futures.ProcessPoolExecutor(max_workers=jobs) as ex:
        fs = [(d, ex.submit(st.run_patch, os.path.join(d, "patch.diff"), [prop])) for d in seeds]
        fb = [(d, ex.submit(st.run_patch, os.path.join(d, "patch.diff"), [prop])) for d in bpatches]
        for d, f in fs:
            r = f.result()
            nm = os.path.basename(d)
            if r is None:
                ss.append(nm)
            else:
                (sf if r.get(prop) else sm).append(nm)
        for d, f in fb:
            r = f.result()
            nm = os.path.basename(d)
            if r is None:
                bk.append(nm)
            else:
                (ba if r.get(prop) else bs).append(nm)
    out.update({"seeds_fired": sf, "seeds_missed": sm, "seeds_skipped": ss,
                "benign_patches_silent": len(bs), "benign_patches_false_alarm": ba, "benign_patches_skipped": bk})
    ctx.note("selftest", out)
    return out
