"""Role resolution (DESIGN §2.3): slots are filled from the public API and followed through types,
impls and the call graph.  Private function names appear in reports only."""
from . import core
from .core import Callee

PUB_AUTOMATA = {
    "bw": "bytewise::DoubleArrayAhoCorasick",
    "cw": "charwise::CharwiseDoubleArrayAhoCorasick",
}
PUB_BUILDERS = {
    "bw": "bytewise::builder::DoubleArrayAhoCorasickBuilder",
    "cw": "charwise::builder::CharwiseDoubleArrayAhoCorasickBuilder",
}
SEARCH_METHODS = [
    # (method, twin, kind)
    ("find_iter", "find_iter_from_iter", "find"),
    ("find_overlapping_iter", "find_overlapping_iter_from_iter", "overlapping"),
    ("find_overlapping_no_suffix_iter", "find_overlapping_no_suffix_iter_from_iter", "nosuffix"),
    ("leftmost_find_iter", None, "leftmost"),
]


class Variant:
    pass


class Roles:
    def __init__(self, ctx, rule="ROLES"):
        self.ctx = ctx
        self.lib = ctx.lib
        self.v = {}
        for tag in ("bw", "cw"):
            self.v[tag] = self._variant(tag, rule)

    def _variant(self, tag, rule):
        ctx, lib = self.ctx, self.lib
        v = Variant()
        v.tag = tag
        v.A = PUB_AUTOMATA[tag]
        v.ok = True
        if v.A not in lib.adts:
            ctx.missing(rule, "automaton type " + v.A)
            v.ok = False
            return v
        v.builder = PUB_BUILDERS[tag]
        if v.builder not in lib.adts:
            ctx.missing(rule, "builder type " + v.builder)
            v.ok = False
            return v
        # state / output element types from the Vec fields of A
        v.S = v.O = None
        v.A_fields = {}
        for f in lib.adts[v.A]["variants"][0]["fields"]:
            v.A_fields[f["name"]] = f
            tj = f["tyj"]
            if tj["k"] == "adt" and tj["path"] == "alloc::vec::Vec" and tj["args"]:
                el = tj["args"][0]
                if el["k"] == "adt":
                    if f["name"] == "states":
                        v.S = el["path"]
                    elif f["name"] == "outputs":
                        v.O = el["path"]
        if not v.S:
            ctx.missing(rule, "%s.states: Vec<State>" % v.A)
            v.ok = False
        if not v.O:
            ctx.missing(rule, "%s.outputs: Vec<Output>" % v.A)
            v.ok = False
        # search methods -> iterator types -> next bodies
        v.methods = {}     # name -> body
        v.iters = {}       # kind -> iterator adt
        v.next = {}        # kind -> body of Iterator::next
        for m, twin, kind in SEARCH_METHODS:
            for name in (m, twin):
                if name is None:
                    continue
                b = lib.one_body(adt=v.A, name=name)
                if b is None:
                    ctx.missing(rule, "%s::%s" % (v.A, name))
                    v.ok = False
                    continue
                v.methods[name] = b
                f = lib.fns.get(b.path)
                out = f["output"] if f else None
                if out and out["k"] == "adt":
                    prev = v.iters.get(kind)
                    if prev and prev != out["path"]:
                        ctx.bad("LAZY-TYPE", b, "same-iterator-type", b.span,
                                "%s returns %s but its twin returns %s" % (name, out["path"], prev))
                    v.iters[kind] = out["path"]
        for kind, it in v.iters.items():
            nb = lib.find_bodies(adt=it, trait="core::iter::Iterator", name="next")
            if len(nb) != 1:
                ctx.missing(rule, "unique Iterator::next impl for " + it)
                v.ok = False
            else:
                v.next[kind] = nb[0]
        # transition functions: crate-local unsafe fns on A called from the next bodies
        # (... that reach a read of BASE: an unsafe one-line accessor wrapper such as `output_pos_unchecked` is no transition; it is
        # inlined by the normal form like any other private helper)
        def reads_base(tb, seen=()):
            for b in lib.with_closures(tb):
                for bi, c, t in b.calls():
                    if c.local and c.adt == v.S and c.name == "base":
                        return True
                    if c.local and c.adt == v.A and c.body_path in lib.bodies and c.body_path not in seen and c.body_path != tb.path:
                        if reads_base(lib.bodies[c.body_path], seen + (tb.path,)):
                            return True
            return False
        v.trans = {}        # body path -> body
        for kind, nb in v.next.items():
            for b in lib.with_closures(nb):
                for bi, c, t in b.calls():
                    if c.local and c.unsafe and c.adt == v.A and c.body_path in lib.bodies and reads_base(lib.bodies[c.body_path]):
                        v.trans[c.body_path] = lib.bodies[c.body_path]
        # child function(s): the LEAF local unsafe fns on A reached from the transition fns; intermediate private unsafe helpers
        # (a transition split in two) are neither roles nor anchors: the normal form inlines them into the transition
        v.child = {}
        seen_u = set(v.trans)
        work = list(v.trans.values())
        while work:
            tb = work.pop()
            outs = []
            for b in lib.with_closures(tb):
                for bi, c, t in b.calls():
                    if c.local and c.unsafe and c.adt == v.A and c.body_path in lib.bodies and c.body_path not in v.trans:
                        outs.append(c.body_path)
            for pth in outs:
                if pth not in seen_u:
                    seen_u.add(pth)
                    work.append(lib.bodies[pth])
            # (a leaf that never reads BASE is not a child lookup: a one-line accessor wrapper such as `fail_id_unchecked`, inlined)
            if not outs and tb.path not in v.trans and any(c.local and c.adt == v.S and c.name == "base"
                                                          for b in lib.with_closures(tb) for bi, c, t in b.calls()):
                v.child[tb.path] = tb
        if v.next and not v.trans:
            ctx.missing(rule, "transition functions of " + v.A)
            v.ok = False
        v.unsafe_A = dict(v.trans)
        v.unsafe_A.update(v.child)
        # which transition is the leftmost one: the one called by the leftmost iterator
        v.trans_of_kind = {}
        for kind, nb in v.next.items():
            s = set()
            for b in lib.with_closures(nb):
                for bi, c, t in b.calls():
                    if c.body_path in v.trans:
                        s.add(c.body_path)
            v.trans_of_kind[kind] = s
        # build entry points
        v.build = lib.one_body(adt=v.builder, name="build")
        v.build_with_values = lib.one_body(adt=v.builder, name="build_with_values")
        v.new = lib.one_body(adt=v.A, name="new")
        v.with_values = lib.one_body(adt=v.A, name="with_values")
        for nm in ("build", "build_with_values", "new", "with_values"):
            if getattr(v, nm) is None:
                ctx.missing(rule, "%s entry point %s" % (tag, nm))
                v.ok = False
        return v

    def variants(self):
        return [self.v["bw"], self.v["cw"]]


def reachable_bodies(lib, roots):
    """crate-local call-graph closure (through closures and resolved callees)"""
    seen = {}
    work = list(roots)
    while work:
        b = work.pop()
        if b.path in seen:
            continue
        seen[b.path] = b
        for cb in lib.closures_of.get(b.path, []):
            work.append(cb)
        for bi, c, t in b.calls():
            bp = c.body_path
            if bp and bp in lib.bodies and bp not in seen:
                work.append(lib.bodies[bp])
            elif c.local and c.trait and not c.resolved:
                # unresolved trait call on a type parameter: all in-crate impls are candidates
                for ob in lib.bodies.values():
                    if ob.j.get("impl_trait") == c.trait and ob.name == c.name and ob.path not in seen:
                        work.append(ob)
    return seen
