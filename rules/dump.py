"""debug helper: python3 -m rules.dump <facts_dir> <substring> [--terms]"""
import sys
from . import core


def pl(p):
    s = "_%d" % p["local"]
    for pe in p["proj"]:
        k = pe["k"]
        if k == "deref":
            s = "(*%s)" % s
        elif k == "field":
            s += "." + pe["name"]
        elif k == "downcast":
            s = "(%s as %s)" % (s, pe["name"])
        elif k == "index":
            s += "[_%d]" % pe["local"]
        else:
            s += "{%s}" % k
    return s


def op(o):
    if o["k"] in ("copy", "move"):
        return ("move " if o["k"] == "move" else "") + pl(o["place"])
    if o["k"] == "const":
        if "fn" in o:
            return core.Callee(o["fn"]).key
        return "const " + o["text"]
    return "?"


def rv(r):
    k = r["k"]
    if k == "use":
        return op(r["op"])
    if k == "ref":
        return ("&mut " if r["mut"] else "&") + pl(r["place"])
    if k == "binop":
        return "%s(%s, %s)" % (r["op"], op(r["l"]), op(r["r"]))
    if k == "unop":
        return "%s(%s)" % (r["op"], op(r["x"]))
    if k == "cast":
        return "%s as %s [%s]" % (op(r["op"]), r["ty"], r["kind"][:20])
    if k == "discr":
        return "discr(%s)" % pl(r["place"])
    if k == "aggregate":
        if r["akind"] == "adt":
            return "%s::%s{%s}" % (r["adt"], r["variant"], ", ".join("%s: %s" % (f, op(o)) for f, o in zip(r["fields"], r["ops"])))
        return "%s(%s)" % (r["akind"] + (":" + r.get("closure", "") if r["akind"] == "closure" else ""), ", ".join(op(o) for o in r["ops"]))
    if k == "rawptr":
        return "rawptr " + pl(r["place"])
    return k + ":" + r.get("s", "")


def dump(b, terms=False):
    print("fn %s  [%s] unsafe=%s vis=%s adt=%s trait=%s" % (b.path, b.span, b.j["unsafe"], b.j["vis"], b.j["impl_adt"], b.j["impl_trait"]))
    for i, l in enumerate(b.locals):
        nm = b.local_names.get(i)
        if nm:
            print("   _%d: %s  // %s" % (i, l["ty"], nm))
    T = core.Terms(b)
    live = b.live_blocks()
    for bi, blk in enumerate(b.blocks):
        if bi not in live:
            continue
        print(" bb%d:%s" % (bi, " (cleanup)" if blk["cleanup"] else ""))
        for st in blk["stmts"]:
            if st["k"] == "assign":
                print("    %s = %s   // %s" % (pl(st["lhs"]), rv(st["rv"]), st["span"].split("/")[-1]))
            else:
                print("    %s" % st["k"])
        t = blk["term"]
        k = t["k"]
        if k == "call":
            print("    %s = %s(%s) -> bb%s   // %s" % (pl(t["dest"]), op(t["func"]), ", ".join(op(a) for a in t["args"]), t["target"], t["span"].split("/")[-1]))
            if terms:
                for a in t["args"]:
                    print("        arg: %s" % core.show(core.norm(T.operand(a))))
        elif k == "switch":
            print("    switch %s %s else bb%d" % (op(t["discr"]), t["targets"], t["otherwise"]))
            if terms:
                print("        discr: %s" % core.show(core.norm(T.operand(t["discr"]))))
        elif k == "assert":
            print("    assert(%s == %s) [%s] -> bb%d" % (op(t["cond"]), t["expected"], t["msg"], t["target"]))
        elif k in ("goto", "drop"):
            print("    %s -> bb%d" % (k, t["target"]))
        else:
            print("    %s" % k)


if __name__ == "__main__":
    crates = core.load_dir(sys.argv[1])
    sub = sys.argv[2]
    for c in crates.values():
        for b in c.bodies.values():
            if sub in b.path:
                dump(b, "--terms" in sys.argv)
                print()
