"""C14 / C08 / C07 type-level and effect rules: PURE-SELF, PURE-FREEZE, DET-EFFECT, PERM-MAP, and the
code mapper rules B-MAP / CW-MAP(get)."""
from . import core, coll
from .core import Callee, walk, show
from .view import FnView, pnorm, OPTION
from .pat import m, ANY, V, K, Par, C, F, E, P, B, Phi, OneOf, members, It
from .da import Sites, endswith, anykey
from .search import switches_on, opt_arms, bool_arms, is_const
from .roles import reachable_bodies

CTORS = {"new", "with_values", "deserialize_unchecked"}


def rule_pure_self(ctx, R):
    lib = ctx.lib
    for v in R.variants():
        if not v.ok:
            continue
        n = 0
        for f in lib.j["fns"]:
            if f.get("impl_adt") != v.A or f.get("impl_trait") is not None:
                continue
            if f["vis"] != "pub" or f["name"] in CTORS:
                continue
            n += 1
            a0 = f["inputs"][0] if f["inputs"] else None
            ok = a0 is not None and a0["k"] == "ref" and not a0["mut"] and a0["to"].get("path") == v.A
            ctx.check(ok, "PURE-SELF", f["path"], "shared-receiver:" + f["name"], f["span"],
                      "every public non-constructor method of the automaton must take `&self`; %s takes %s"
                      % (f["name"], a0["s"] if a0 else "nothing"))
            # no other parameter gives mutable access to an automaton
            for a in f["inputs"][1:]:
                bad = a["k"] == "ref" and a["mut"] and a["to"].get("path") == v.A
                ctx.check(not bad, "PURE-SELF", f["path"], "no-mut-automaton-param:" + f["name"], f["span"], "no &mut automaton parameters")
        ctx.check(n >= 10, "PURE-SELF", v.A, "public-methods-seen:" + v.tag, "", "expected >= 10 public methods on the automaton; saw %d" % n)
        # iterators hold &A, not &mut A
        for kind, I in v.iters.items():
            for fd in lib.adts[I]["variants"][0]["fields"]:
                tj = fd["tyj"]
                if tj["k"] == "ref" and tj["to"].get("path") == v.A:
                    ctx.check(not tj["mut"], "PURE-SELF", I, "iterator-holds-shared-ref", lib.adts[I]["span"],
                              "search iterators must hold `&A`; %s.%s is %s" % (I, fd["name"], fd["ty"]))
        # who-may-write: the automaton's fields are set once, by the builder's literal or the image reader
        for fd in lib.adts[v.A]["variants"][0]["fields"]:
            for wb, bi, kind, payload in lib.field_writes().get((v.A, fd["name"]), []):
                if wb.j.get("impl_trait") in ("core::clone::Clone",) or "::tests::" in wb.path:
                    continue
                okw = kind == "literal" and (wb is v.build_with_values or wb.name == "deserialize_unchecked")
                ctx.check(okw, "PURE-SELF", wb, "automaton-field-set-once:" + fd["name"], wb.loc(bi),
                          "%s.%s may only be set by the builder's literal / deserialize_unchecked; written by %s (%s)" % (v.A, fd["name"], wb.key, kind))


def rule_pure_freeze(ctx, R, NR=None):
    lib = ctx.lib
    for v in R.variants():
        if not v.ok:
            continue
        types = [v.A, v.S, v.O, "MatchKind"] + (["charwise::mapper::CodeMapper"] if v.tag == "cw" else [])
        for t in types:
            a = lib.adts.get(t)
            if a is None:
                ctx.missing("PURE-FREEZE", "type " + t)
                continue
            ctx.check(not a["unsafe_cell_paths"], "PURE-FREEZE", t, "no-interior-mutability", a["span"],
                      "no UnsafeCell may be reachable from %s (Cell/RefCell/atomics/Mutex would let `&self` searches mutate it); found %s"
                      % (t, a["unsafe_cell_paths"][:3]))
            # raw pointers in the automaton's own fields
            for var in a["variants"]:
                for fd in var["fields"]:
                    bad = any(x["k"] == "rawptr" for x in _walk_tyj(fd["tyj"]))
                    ctx.check(not bad, "PURE-FREEZE", t, "no-raw-pointer-field:" + fd["name"], a["span"],
                              "field %s.%s: raw pointers would escape the aliasing rules the purity argument relies on" % (t, fd["name"]))
    # crate-wide zero-expected facts (positive controls live in selftest/)
    ctx.check(not lib.j["statics"], "PURE-FREEZE", "daachorse", "no-statics", "",
              "the library must have no `static` items (shared mutable/global state); found %s" % [s["path"] for s in lib.j["statics"]])
    rawsites = []
    transm = []
    for b in lib.bodies.values():
        if "::tests::" in b.path:
            continue
        for bi, si, st in b.stmts():
            if st["k"] != "assign" or st.get("exp"):
                continue
            rv = st["rv"]
            if rv["k"] == "rawptr" and rv.get("kind") != "FakeForPtrMetadata":
                # (FakeForPtrMetadata is the compiler's own length read for a bounds check of `slice_ref[i]`, not a user pointer)
                rawsites.append((b, bi, si))
            if rv["k"] == "cast" and (rv["kind"].startswith("Transmute") or "Expose" in rv["kind"] or "ExposedProvenance" in rv["kind"]):
                transm.append((b, bi, si, rv["kind"]))
            # deref of a raw-pointer-typed local
            for pl in _places_of(st):
                if pl["proj"] and pl["proj"][0]["k"] == "deref" and b.locals[pl["local"]]["tyj"]["k"] == "rawptr":
                    rawsites.append((b, bi, si))
    ctx.check(not rawsites, "PURE-FREEZE", "daachorse", "no-raw-pointer-use", "",
              "no raw pointer creation/dereference in library code (outside macro expansions); found %s"
              % ["%s %s" % (b.key, b.loc(bi, si)) for b, bi, si in rawsites[:4]])
    ctx.check(not transm, "PURE-FREEZE", "daachorse", "no-transmute-or-ptr-int-cast", "",
              "no transmute / pointer<->integer casts in library code; found %s" % ["%s %s %s" % (b.key, b.loc(bi, si), k) for b, bi, si, k in transm[:4]])
    badcalls = []
    for b in lib.bodies.values():
        for bi, c, t in b.calls():
            if t.get("exp"):
                continue
            p = c.path
            if p.startswith("core::ptr::") or p.startswith("core::sync::atomic") or p.startswith("core::cell::") and not p.startswith("core::cell::RefCell") \
                    or p.startswith("core::intrinsics::") or "::as_mut_ptr" in p or "from_raw_parts" in p or p.startswith("core::mem::transmute"):
                badcalls.append((b, bi, p))
    ctx.check(not badcalls, "PURE-FREEZE", "daachorse", "no-pointer-or-atomic-apis", "",
              "no core::ptr / atomics / Cell / raw-parts APIs in library code; found %s" % ["%s %s" % (b.key, p) for b, bi, p in badcalls[:4]])
    ctx.note("bodies_scanned_for_pointer_use", len(lib.bodies))


def _places_of(st):
    out = [st["lhs"]]
    rv = st["rv"]
    for k in ("place",):
        if k in rv:
            out.append(rv[k])
    for k in ("op", "l", "r", "x"):
        o = rv.get(k)
        if isinstance(o, dict) and o.get("k") in ("copy", "move"):
            out.append(o["place"])
    for o in rv.get("ops", []):
        if o.get("k") in ("copy", "move"):
            out.append(o["place"])
    return out


def _walk_tyj(tj):
    yield tj
    for a in tj.get("args", []):
        yield from _walk_tyj(a)
    for k in ("to", "of"):
        if k in tj:
            yield from _walk_tyj(tj[k])
    for a in tj.get("elems", []):
        yield from _walk_tyj(a)


def rule_det_effect(ctx, R):
    lib = ctx.lib
    j = lib.j
    ctx.check(j["no_std"], "DET-EFFECT", "daachorse", "no_std", "", "the library must stay #![no_std] (no access to clocks, env, threads, RandomState)")
    deps = set(j["deps"]) - {"core", "alloc", "compiler_builtins"}
    ctx.check(not deps, "DET-EFFECT", "daachorse", "no-dependencies", "", "the library must not link further crates; found %s" % sorted(deps))
    ctx.check(not j["foreign_mods"] and not j["other"], "DET-EFFECT", "daachorse", "no-ffi-or-asm", "", "no extern blocks / global asm")
    roots = []
    for v in R.variants():
        if v.ok:
            roots += [v.build, v.build_with_values, v.new, v.with_values]
    reach = reachable_bodies(lib, roots)
    ctx.note("build_call_graph_bodies", len(reach))
    bad = []
    for b in reach.values():
        for bi in b.live_blocks():
            if b.blocks[bi]["term"]["k"] == "asm":
                bad.append((b, "inline asm"))
        for bi, c, t in b.calls():
            p = c.path
            if p.startswith("core::sync::atomic") or "RandomState" in p or p.startswith("core::arch") or "::addr" == p[-6:] or \
                    p.startswith("core::hash::") and "BuildHasher" in p or p.startswith("core::ptr::"):
                bad.append((b, p))
        for bi, si, st in b.stmts():
            if st["k"] == "assign" and st["rv"]["k"] == "cast" and "Expose" in st["rv"]["kind"]:
                bad.append((b, "pointer->integer cast"))
        if b.indirect_calls():
            for bi, t in b.indirect_calls():
                bad.append((b, "indirect call (function pointer / dyn)"))
    ctx.check(not bad, "DET-EFFECT", "daachorse", "no-nondeterminism-source", "",
              "the build call graph (%d bodies) must reach no nondeterminism source; found %s" % (len(reach), ["%s: %s" % (b.key, w) for b, w in bad[:4]]))
    ctx.check(len(reach) >= 40, "DET-EFFECT", "daachorse", "call-graph-floor", "", "build call graph unexpectedly small: %d bodies" % len(reach))


def rule_perm_map(ctx, R, NR):
    lib = ctx.lib
    if not NR.ok:
        return
    f = lib.adt_field(NR.NS, "edges")
    ok = f is not None and f["tyj"]["k"] == "adt" and f["tyj"]["path"] == "alloc::collections::BTreeMap"
    ctx.check(ok, "PERM-MAP", NR.NS, "ordered-edge-map", lib.adts[NR.NS]["span"],
              "the NFA edge container must iterate in key order (BTreeMap): fail links, output order and array layout must not depend on "
              "insertion order; found %s" % (f["ty"] if f else "?"))
    # no other per-state container of children
    for fd in lib.adts[NR.NS]["variants"][0]["fields"]:
        if fd["name"] == "edges":
            continue
        bad = any(x["k"] == "adt" and x["path"] in ("alloc::vec::Vec", "alloc::collections::VecDeque") for x in _walk_tyj(fd["tyj"]))
        ctx.check(not bad, "PERM-MAP", NR.NS, "no-insertion-ordered-children:" + fd["name"], lib.adts[NR.NS]["span"],
                  "no insertion-ordered child list may sit beside the ordered edge map")


# ----------------------------------------------------------------------------- code mapper

def rule_mapper(ctx, R, rules=None):
    lib = ctx.lib

    def want(r):
        return rules is None or r in rules
    M = "charwise::mapper::CodeMapper"
    nb = lib.one_body(adt=M, name="new")
    gb = lib.one_body(adt=M, name="get")
    if nb is None or gb is None:
        ctx.missing("B-MAP", "CodeMapper::new / get")
        return
    inv = lib.consts.get("charwise::mapper::INVALID_CODE")
    ctx.check(inv is not None and inv["val"] == 0xFFFFFFFF, "B-MAP", M, "invalid-code-const", "", "INVALID_CODE must be u32::MAX")
    if want("B-MAP"):
        S = Sites(lib, nb)
        lit = [pnorm(S.root.T.rvalue(st["rv"])) for bi, si, st in nb.stmts() if st["k"] == "assign" and st["rv"]["k"] == "aggregate" and st["rv"].get("adt") == M]
        if len(lit) != 1:
            ctx.bad("B-MAP", nb, "literal", nb.span, "one CodeMapper literal expected")
            return
        f = dict(lit[0][3])
        table, asz = f.get("table"), f.get("alphabet_size")
        env = {}
        ok = table is not None and table[0] == "var" and m(C("alloc::vec::Vec::len", V("sorted")), asz, env)
        ctx.check(ok, "B-MAP", nb, "alphabet-size-is-count", nb.span,
                  "alphabet_size must be the number of distinct mapped code points (sorted.len()); found %s" % show(asz))
        if not ok:
            return
        sorted_t = env["sorted"]
        # table creation
        cdefs = [pnorm(t) for k, t, bb in S.root.T.container_defs(table[2]) if k in ("call", "rv")]
        ctx.check(any(m(C("alloc::vec::from_elem", K(0xFFFFFFFF), C("core::slice::len", Par(1))), t) for t in cdefs), "B-MAP", nb, "table-default-invalid", nb.span,
                  "the table must start as INVALID_CODE for every code point of the histogram; defs %s" % [show(t) for t in cdefs])
        # stores: table[c] = index
        sts = [s for s in S.stores if s["tgt"][0] == "elem" and core.same(s["tgt"][1], table)]
        pull = [s for s in S.keyed(lambda k: core.callee_base(k) == "core::iter::Iterator::next")
                if m(C("core::iter::Iterator::enumerate", C("core::slice::iter", lambda t, e: core.same(t, sorted_t))), s["args"][0])]
        ok = len(sts) == 1 and len(pull) == 1
        if ok:
            item = P(C(anykey, ANY, site=(nb.path, pull[0]["bb"])))
            ok = m(F(F(item, "1", "(tuple)"), "0", "(tuple)"), sts[0]["tgt"][2]) and m(F(item, "0", "(tuple)"), sts[0]["val"])
        ctx.check(ok, "B-MAP", nb, "codes-are-ranks", nb.span,
                  "table[c] must be the enumeration index of c in `sorted` (codes are dense 0..alphabet_size); stores %s"
                  % [(show(s["tgt"]), show(s["val"])) for s in sts])
        # sorted: pairs (c, f) of the histogram with f != 0
        adds = coll.additions(S, lambda t: core.same(t, sorted_t))
        okp = len(adds) == 1
        it = It(C("core::iter::Iterator::enumerate", OneOf(C("core::slice::iter", Par(1)), C("core::iter::Iterator::copied", C("core::slice::iter", Par(1))))))
        if okp:
            # the pair (index, count): rebuilt field by field, or the enumerate item itself
            okp = m(("tuple", (F(it, "0", "(tuple)"), F(it, "1", "(tuple)"))), adds[0].val) or m(it, adds[0].val)
        ctx.check(okp, "B-MAP", nb, "sorted-from-histogram", nb.span,
                  "`sorted` must hold (code point, frequency) for the non-zero entries of the histogram; added %s" % [show(a.val) for a in adds])
        # every code point that occurs gets a code: an entry is kept exactly when its count is not zero (filter / if / continue)

        def is_zero(t):
            return t[0] == "bin" and t[1] == "Eq" and ((is_const(t[3], 0) and m(F(it, "1", "(tuple)"), t[2])) or
                                                      (is_const(t[2], 0) and m(F(it, "1", "(tuple)"), t[3])))
        okf = len(adds) == 1 and adds[0].kept_iff(is_zero, False)
        ctx.check(okf, "B-MAP", nb, "keeps-all-occurring", nb.span, "every code point with a non-zero count must be mapped (kept iff f != 0)")
    if want("B-MAP"):
        # who-may-write: the mapper's table and alphabet size are fixed by CodeMapper::new (and the image reader);
        # nothing renumbers or shrinks them afterwards, so I5 (every code < alphabet_size <= block length) is preserved
        for fname in ("table", "alphabet_size"):
            for wb, bi, kind, payload in lib.field_writes().get((M, fname), []):
                if wb.j.get("impl_trait") in ("core::clone::Clone", "core::default::Default"):
                    continue
                okw = kind == "literal" and (wb is nb or (wb.j.get("impl_adt") == M and wb.name == "deserialize_from_slice"))
                ctx.check(okw, "B-MAP", wb, "mapper-immutable:" + fname, wb.loc(bi),
                          "CodeMapper.%s may only be set by CodeMapper::new / the image reader (no later renumbering); written by %s (%s)" % (fname, wb.key, kind))
        for f in lib.j["fns"]:
            if f.get("impl_adt") == M and f["inputs"] and f["inputs"][0]["k"] == "ref" and f["inputs"][0]["mut"]:
                ctx.bad("B-MAP", f["path"], "mapper-no-mut-methods:" + f["name"], f["span"], "CodeMapper must have no `&mut self` methods")
    if want("CW-MAP"):
        S = Sites(lib, gb)
        gets = S.keyed(lambda k: k == "core::slice::get")
        ok = len(gets) == 1 and m(F(Par(1), "table"), gets[0]["args"][0]) and m(Par(2), gets[0]["args"][1])
        ctx.check(ok, "CW-MAP", gb, "checked-lookup", gb.span,
                  "CodeMapper::get must use the checked slice `get` on self.table with the code point (total for every char)")
        unchecked = [s for s in S.calls if s["c"].unsafe or core.callee_base(s["key"]) in ("core::ops::Index::index",)]
        asserts = [bi for bi in gb.live_blocks() if gb.blocks[bi]["term"]["k"] == "assert" and gb.blocks[bi]["term"]["msg"] == "bounds"]
        ctx.check(not unchecked and not asserts, "CW-MAP", gb, "no-panicking-index", gb.span, "no unchecked or panicking indexing in CodeMapper::get")
        flt = S.keyed(lambda k: core.callee_base(k) == "core::option::Option::filter")
        okf = len(flt) == 1 and flt[0]["tj"]["dest"]["local"] == 0
        if okf:
            cl = flt[0]["args"][1]
            cr = S.fv.closure_ret(cl[1]) if cl[0] == "closure" else None
            okf = cr is not None and cr[0] == "bin" and cr[1] == "Ne" and (is_const(cr[2], 0xFFFFFFFF) or is_const(cr[3], 0xFFFFFFFF))
        if not okf:
            # alternative shape: explicit comparison
            sw = switches_on(S.root, lambda d: d[0] == "bin" and d[1] in ("Eq", "Ne") and (is_const(d[2], 0xFFFFFFFF) or is_const(d[3], 0xFFFFFFFF)))
            okf = len(sw) == 1
        ctx.check(okf, "CW-MAP", gb, "invalid-code-filtered", gb.span,
                  "a table entry equal to INVALID_CODE must yield None (characters absent from the patterns have no transition)")
