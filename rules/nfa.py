"""NFA-side rule groups over nfa_builder: NFA-OUT / B-OPOS / TERM-PARENT (outputs pass),
NFA-FAIL / NFA-LM / TERM-FAILW (fail passes), NFA-LF / VALID-* / STAT-NS / VAL-ADD (add),
NFA-DISPATCH (builders)."""
from . import core, cond
from .core import Callee, walk, show, mk_phi
from .view import FnView, pnorm, mk_payload, OPTION, RESULT
from .pat import m, ANY, V, K, Par, C, F, E, P, B, Phi, OneOf, members, strip_iter, It
from .search import opt_arms, bool_arms, switches_on, is_const, self_param

VEC_PUSH = "alloc::vec::Vec::push"
# mutators of a Vec that never remove or reorder elements
QUEUE_GROWERS = {VEC_PUSH, "alloc::vec::Vec::reserve", "alloc::vec::Vec::reserve_exact", "alloc::vec::Vec::extend_from_slice",
                 "core::iter::Extend::extend", "alloc::vec::Vec::shrink_to_fit", "core::iter::Iterator::for_each",
                 "core::ops::Index::index", "core::ops::Deref::deref", "alloc::vec::Vec::len", "alloc::vec::Vec::as_slice"}
VEC_LEN = "alloc::vec::Vec::len"


class NfaRoles:
    def __init__(self, ctx, R, rule="ROLES"):
        lib = ctx.lib
        self.ok = True
        self.N = None
        # NFA type: the crate-local type whose `add` the builders' call graph reaches
        for v in R.variants():
            if not v.ok:
                continue
            from .roles import reachable_bodies
            reach = reachable_bodies(lib, [v.build_with_values])
            v.reach = reach
            for b in reach.values():
                for bi, c, t in b.calls():
                    if c.local and c.name == "add" and c.adt and c.adt in lib.adts:
                        self.N = c.adt
        if not self.N:
            ctx.missing(rule, "NFA builder type (callee `add` of the build call graph)")
            self.ok = False
            return
        N = self.N
        self.add = lib.one_body(adt=N, name="add")
        self.new = lib.one_body(adt=N, name="new")
        # NFA state type: RefCell<NS> element of N.states
        self.NS = None
        f = lib.adt_field(N, "states")
        if f:
            for x in _walk_tyj(f["tyj"]):
                if x["k"] == "adt" and x.get("krate") == lib.name and x["path"] != N:
                    self.NS = x["path"]
        if not self.NS or self.add is None or self.new is None:
            ctx.missing(rule, "NFA state type / add / new of " + N)
            self.ok = False
            return
        fw = lib.field_writes()
        # outputs pass: the function of N that pushes onto self.outputs
        self.outputs_pass = None
        for b in lib.find_bodies(adt=N):
            fv = FnView(lib, b)
            for vw, bi, c, tj in fv.calls(lambda c: c.key == VEC_PUSH):
                a0 = vw.op(tj["args"][0])
                if a0[0] == "field" and a0[3] == "outputs" and self_param(a0[1]):
                    self.outputs_pass = b
        if self.outputs_pass is None:
            ctx.missing(rule, "outputs pass (pusher of %s.outputs)" % N)
            self.ok = False
        # fail passes: the functions of N that the builders call (entry points from outside N) and that assign NS.fail themselves or
        # through private helpers of N (a `set_fail` helper is not a pass of its own: the normal form inlines it)
        writers = set()
        for b, bi, kind, payload in fw.get((self.NS, "fail"), []):
            owner = b
            owner = lib.owner_of(owner)
            if kind == "assign" and owner.j.get("impl_adt") == N:
                writers.add(owner.path)
        nfns = {b.path: b for b in lib.find_bodies(adt=N)}
        callees = {}
        for pth, b in nfns.items():
            outs = set()
            for bb_ in lib.with_closures(b):
                for bi, c, t in bb_.calls():
                    if c.body_path in nfns and c.body_path != pth:
                        outs.add(c.body_path)
            callees[pth] = outs
        called_from_outside = set()
        for ob in lib.bodies.values():
            owner = ob
            owner = lib.owner_of(owner)
            if owner.path in nfns or "::tests::" in owner.path:
                continue
            for bi, c, t in ob.calls():
                if c.body_path in nfns:
                    called_from_outside.add(c.body_path)

        def reaches_writer(pth, seen=()):
            if pth in writers:
                return True
            return any(reaches_writer(q, seen + (pth,)) for q in callees.get(pth, ()) if q not in seen)
        self.fail_passes = [nfns[pth] for pth in sorted(nfns) if pth in called_from_outside and reaches_writer(pth)]
        if not self.fail_passes:
            self.fail_passes = [nfns[pth] for pth in sorted(writers) if pth in nfns]
        self.child_id = lib.one_body(adt=N, name="child_id")
        # dispatch: which pass is the standard one
        self.std_pass = None
        self.lm_pass = None


def _walk_tyj(tj):
    yield tj
    for a in tj.get("args", []):
        yield from _walk_tyj(a)
    if "to" in tj:
        yield from _walk_tyj(tj["to"])
    if "of" in tj:
        yield from _walk_tyj(tj["of"])
    for a in tj.get("elems", []):
        yield from _walk_tyj(a)


def nfa_state(idx):
    """states[idx] of the NFA (self.states[idx])"""
    return E(F(Par(1), "states"), idx)


BT_GET = "alloc::collections::BTreeMap::get"


def LOOKUP(state, label, NS=None):
    """the child lookup `states[state].edges.get(&label)` (the body of the private `child_id` helper, which the normal form
    inlines — so the same rules cover a builder that writes the lookup in place)"""
    return C(BT_GET, F(nfa_state(state), "edges", NS), label)


def child_lookups(fv, root, NS):
    """[(bb, state term, label term)] of every child lookup in the root body"""
    out = []
    for vw, bi, c, tj in fv.calls(lambda c: core.callee_base(c.key) == BT_GET):
        if vw is not root:
            continue
        recv = vw.op(tj["args"][0])
        if recv[0] == "field" and recv[3] == "edges" and recv[2] == NS and recv[1][0] == "elem":
            out.append((bi, recv[1][2], vw.op(tj["args"][1])))
    return out


def state_local_of(root, b, state_term):
    """the user-named local whose value is the given state term (the walk cursor)"""
    for l in sorted(b.local_names):
        if l > b.arg_count:
            try:
                if core.same(pnorm(root.T.local(l)), state_term):
                    return l
            except Exception:
                continue
    return None


# ----------------------------------------------------------------------------- outputs pass

def rule_outputs_pass(ctx, R, NR):
    """NFA-OUT / B-OPOS / TERM-PARENT on the outputs pass."""
    if not NR.ok or NR.outputs_pass is None:
        return
    lib = ctx.lib
    b = NR.outputs_pass
    fv = FnView(lib, b)
    root = fv.root
    NS = NR.NS
    # the queue pull: Iterator::next over the parameter q
    pulls = [(vw, bi, vw.op(tj["args"][0])) for vw, bi, c, tj in fv.calls(lambda c: core.callee_base(c.key) == "core::iter::Iterator::next")]
    qpull = [(vw, bi, r) for vw, bi, r in pulls if strip_iter(r)[0] == "param" and strip_iter(r)[1] == 2]
    ctx.check(len(qpull) == 1 and len(pulls) == 1, "NFA-OUT", b, "queue-order", b.span,
              "the outputs pass must visit exactly the states of the queue parameter, in queue (BFS) order; pulls: %s"
              % [show(r) for _, _, r in pulls])
    if len(qpull) != 1:
        return
    _, pbi, _ = qpull[0]
    psite = (b.path, pbi)
    cur = P(C("core::iter::Iterator::next", ANY, site=psite))   # the dequeued state id
    S = nfa_state(cur)
    Sfail = nfa_state(F(nfa_state(cur), "fail", NS))
    # writes to NS.output_pos in this function
    writes = [(bi, si, st) for bi, si, st in b.stmts() if st["k"] == "assign" and core.last_field(st["lhs"]) and
              core.last_field(st["lhs"])["adt"] == NS and core.last_field(st["lhs"])["name"] == "output_pos"]
    own = inherit = None
    for bi, si, st in writes:
        tgt = root.place(st["lhs"])
        val = pnorm(root.T.rvalue(st["rv"]))
        tgt_ok = m(F(S, "output_pos", NS), tgt)
        ctx.check(tgt_ok, "NFA-OUT", b, "output_pos-target", b.loc(bi, si),
                  "output_pos must be written on the dequeued state; target %s" % show(tgt))
        if m(C("core::num::NonZero::new", B("Add", C(VEC_LEN, F(Par(1), "outputs")), K(1))), val):
            own = (bi, si)
        elif m(F(Sfail, "output_pos", NS), val):
            inherit = (bi, si)
        else:
            ctx.bad("B-OPOS", b, "output_pos-value", b.loc(bi, si),
                    "output_pos may only be NonZero(outputs.len()+1) or a copy of states[fail].output_pos; found %s" % show(val), show(val))
    ctx.check(own is not None, "B-OPOS", b, "own-position", b.span,
              "a state with its own output must get position outputs.len()+1")
    ctx.check(inherit is not None, "NFA-OUT", b, "inherit-from-fail", b.span,
              "a state without own output must inherit output_pos of states[fail]")
    # the branch: discr(S.output)
    sw = switches_on(root, lambda d: d[0] == "discr" and m(F(S, "output", NS), d[1]))
    if len(sw) != 1:
        ctx.bad("NFA-OUT", b, "own-output-test", b.span, "the pass must branch once on `s.output`")
        return
    sbi, st, _ = sw[0]
    some, none = opt_arms(st)
    if own:
        ctx.check(b.edge_guards((sbi, some), own[0]), "NFA-OUT", b, "own-on-some-arm", b.loc(*own),
                  "the own position is assigned only when the state has an output")
        ctx.check(pbi not in (b.reach(some, avoid_blocks=[own[0]]) - {some} if some != own[0] else set()), "NFA-OUT", b, "own-on-every-some-path", b.loc(*own),
                  "EVERY state with an own output gets its own position (no extra condition)")
    if inherit:
        ctx.check(b.edge_guards((sbi, none), inherit[0]), "NFA-OUT", b, "inherit-on-none-arm", b.loc(*inherit),
                  "output_pos is inherited only when the state has no own output")
        ctx.check(pbi not in (b.reach(none, avoid_blocks=[inherit[0]]) - {none} if none != inherit[0] else set()), "NFA-OUT", b, "inherit-on-every-none-path",
                  b.loc(*inherit), "EVERY state without own output inherits the fail state's output position (no extra condition)")
    # push of Output::new(value, length, parent)
    pushes = [(vw, bi, vw.op(tj["args"][1])) for vw, bi, c, tj in fv.calls(lambda c: c.key == VEC_PUSH)
              if m(F(Par(1), "outputs"), vw.op(tj["args"][0]))]
    ctx.check(len(pushes) == 1, "B-OPOS", b, "single-push", b.span, "exactly one push onto outputs expected; found %d" % len(pushes))
    for vw, bi, rec in pushes:
        out_payload = P(F(S, "output", NS))
        want = C(lambda k: k.endswith("Output::new"),
                 F(out_payload, "0", "(tuple)"), F(out_payload, "1", "(tuple)"), F(Sfail, "output_pos", NS))
        ctx.check(m(want, rec), "NFA-OUT", b, "record-fields", b.loc(bi),
                  "the record must be Output::new(s.output.0, s.output.1, states[s.fail].output_pos); found %s" % show(rec), show(rec))
        ctx.check(m(C(lambda k: True, ANY, ANY, F(Sfail, "output_pos", NS)), rec), "TERM-PARENT", b, "parent-from-fail-state", b.loc(bi),
                  "the parent link must be the (already assigned) output position of the fail state — a different, earlier "
                  "record; found %s" % show(rec.__getitem__(2)[2] if rec[0] == "call" and len(rec[2]) > 2 else rec))
        if own:
            # pairing: position assignment and push happen together (same arm, push reached on all paths)
            ctx.check(b.edge_guards((sbi, some), bi) and pbi not in (b.reachable_from(own[0], avoid=[bi]) - {own[0]}),
                      "B-OPOS", b, "position-push-paired", b.loc(bi),
                      "assigning position len+1 must be followed by the push that makes that position valid")
    # TERM-PARENT: output_pos of NS is written nowhere else in the crate
    fw = lib.field_writes().get((NS, "output_pos"), [])
    for wb, bi, kind, payload in fw:
        owner = wb
        if wb.j.get("impl_trait") == "core::clone::Clone":
            continue      # a clone copies an existing state field by field
        if kind == "literal":
            st, op = payload
            t = pnorm(FnView(lib, wb).root.T.operand(op))
            ctx.check(t[0] == "agg" and t[2] == "None", "TERM-PARENT", wb, "output_pos-literal", wb.loc(bi),
                      "a state literal must start with output_pos None; found %s" % show(t))
        elif kind == "mutborrow":
            ctx.bad("TERM-PARENT", wb, "output_pos-mutborrow", wb.loc(bi), "&mut borrow of output_pos: untracked writes")
        elif wb is not b:
            ctx.bad("TERM-PARENT", wb, "output_pos-foreign-write", wb.loc(bi),
                    "output_pos of an NFA state is written outside the outputs pass")
    # B-OPOS effect whitelist on N.outputs: only that push anywhere in the crate
    _vec_effects(ctx, lib, NR.N, "outputs", {VEC_PUSH: [b.key]}, "B-OPOS")


READONLY_VEC = {"alloc::vec::Vec::len", "alloc::vec::Vec::is_empty", "alloc::vec::Vec::capacity", "alloc::vec::Vec::iter",
                "core::slice::iter", "core::slice::len", "core::slice::get", "core::slice::is_empty", "core::slice::get_unchecked",
                "alloc::vec::Vec::shrink_to_fit", "core::ops::Index::index", "core::clone::Clone::clone", "core::cmp::PartialEq::eq",
                "core::cmp::PartialEq::ne", "core::hash::Hash::hash", "core::fmt::Debug::fmt", "core::slice::first", "core::slice::last"}


def _vec_effects(ctx, lib, adt, fname, allowed, rule):
    """effect whitelist on a Vec-typed field: every call in the crate that receives (a borrow of)
    `<adt>.<fname>` must be read-only or listed in `allowed` {callee key: [function keys]}"""
    n = 0
    for b in lib.bodies.values():
        if b.is_closure:
            continue
        fv = FnView(lib, b)
        for vw, bi, c, tj in fv.calls():
            for ai, a in enumerate(tj["args"]):
                t = vw.op(a)
                if t[0] == "field" and t[2] == adt and t[3] == fname:
                    n += 1
                    base = core.callee_base(c.key)
                    if base in READONLY_VEC or base in core.IDENTITY_KEYS or base in core.NEUTRAL_VEC:
                        continue
                    if base in allowed and (allowed[base] is None or fv.root.body.key in allowed[base]):
                        continue
                    if c.local:
                        continue   # passed on to crate code: that code is analysed on its own parameter
                    if base == "core::ops::IndexMut::index_mut" and _only_into_cell(vw.body, tj):
                        # `self.states[i].get_mut()`: the element is a RefCell and the `&mut` element is used for nothing but
                        # RefCell::get_mut — the same access as `.borrow_mut()`; the element itself is not replaced
                        continue
                    ctx.bad(rule, vw.body, "effect:%s.%s:%s" % (adt.split("::")[-1], fname, c.name), vw.body.loc(bi),
                            "%s.%s may only be %s here; found call %s" % (adt, fname, "/".join(k.split("::")[-1] for k in allowed) or "read", c.key))
    ctx.note("vec_effect_sites:%s.%s" % (adt.split("::")[-1], fname), n)


def _only_into_cell(body, tj):
    """the result of this call (a `&mut RefCell<_>`) flows, through plain moves / reborrows, only into RefCell::get_mut"""
    d = tj.get("dest")
    if d is None or d["proj"]:
        return False
    work, seen, sinks = [d["local"]], set(), 0
    while work:
        l = work.pop()
        if l in seen:
            continue
        seen.add(l)
        for bi in body.live_blocks():
            blk = body.blocks[bi]
            for st in blk["stmts"]:
                if st["k"] != "assign":
                    continue
                uses = [pl for pl in core._places(st["rv"], []) if pl.get("local") == l]
                if not uses:
                    continue
                rv = st["rv"]
                plain = (rv["k"] == "use" and rv["op"]["k"] in ("move", "copy") and not rv["op"]["place"]["proj"]) or \
                    (rv["k"] == "ref" and rv["place"]["proj"] == [{"k": "deref"}]) or \
                    (rv["k"] == "ref" and len(rv["place"]["proj"]) == 1 and rv["place"]["proj"][0]["k"] == "deref")
                if plain and not st["lhs"]["proj"]:
                    work.append(st["lhs"]["local"])
                else:
                    return False
            t = blk["term"]
            if t["k"] == "call":
                for a in t["args"]:
                    if a["k"] in ("move", "copy") and a["place"]["local"] == l:
                        fn_ = t["func"].get("fn") if isinstance(t.get("func"), dict) else None
                        if fn_ is not None and fn_.get("path", "").endswith("RefCell::<T>::get_mut") or \
                                (fn_ is not None and core.Callee(fn_).key.split("@")[0] == "core::cell::RefCell::get_mut"):
                            sinks += 1
                        else:
                            return False
                if t.get("dest") is not None and t["dest"]["local"] == l and t is not tj and t["dest"] is not d:
                    pass
    return sinks >= 1


# ----------------------------------------------------------------------------- fail passes

def _queue_terms(root, b):
    """(queue term, [(pushed element term, bb)]) for the Vec<u32> returned by a fail pass"""
    ret = root.ret()
    pushes = []
    if ret[0] == "var":
        for kind, t, bb in root.T.container_defs(ret[2]):
            t = pnorm(t)
            if t[0] == "mutby" and t[1] == VEC_PUSH:
                pushes.append((t[2][1], bb))
    return ret, pushes


def rule_fail_passes(ctx, R, NR):
    """NFA-FAIL / NFA-LM / TERM-FAILW."""
    if not NR.ok:
        return
    lib = ctx.lib
    NS, N = NR.NS, NR.N
    if len(NR.fail_passes) != 2:
        ctx.missing("NFA-FAIL", "two fail passes (standard, leftmost) writing %s.fail; found %d" % (NS, len(NR.fail_passes)))
        return
    # TERM-FAILW: fail of NS is written only by the fail passes (and the Default literal = ROOT)
    for wb, bi, kind, payload in lib.field_writes().get((NS, "fail"), []):
        if wb.j.get("impl_trait") == "core::clone::Clone":
            continue
        if kind == "literal":
            st, op = payload
            t = pnorm(FnView(lib, wb).root.T.operand(op))
            ctx.check(is_const(t, 0), "TERM-FAILW", wb, "fail-literal", wb.loc(bi), "a fresh NFA state must fail to ROOT; found %s" % show(t))
        elif kind == "mutborrow":
            ctx.bad("TERM-FAILW", wb, "fail-mutborrow", wb.loc(bi), "&mut borrow of fail: untracked writes")
        else:
            owner = wb
            owner = lib.owner_of(owner)
            ctx.check(owner in NR.fail_passes, "TERM-FAILW", wb, "fail-writer", wb.loc(bi),
                      "fail links are written only by the fail passes")
    for b in NR.fail_passes:
        _fail_pass(ctx, R, NR, b)


def _fail_pass(ctx, R, NR, b):
    lib = ctx.lib
    NS = NR.NS
    fv = FnView(lib, b)
    root = fv.root
    # classify: leftmost iff it writes the DEAD constant
    fwrites = [(bi, si, st) for bi, si, st in b.stmts() if st["k"] == "assign" and core.last_field(st["lhs"]) and
               core.last_field(st["lhs"])["adt"] == NS and core.last_field(st["lhs"])["name"] == "fail"]
    vals = [pnorm(root.T.rvalue(st["rv"])) for _, _, st in fwrites]
    leftmost = any(is_const(x, 1) for v in vals for x in members(v))
    tag = "leftmost" if leftmost else "standard"
    b.fail_kind = tag
    if leftmost:
        NR.lm_pass = b
    else:
        NR.std_pass = b
    ret, pushes = _queue_terms(root, b)
    # the returned queue is the visiting order of the outputs pass: it only ever grows (no retain/remove/truncate/… on it)
    if ret[0] == "var":
        shrink = []
        for kind, t, bb in root.T.container_defs(ret[2]):
            t = pnorm(t)
            if t[0] == "mutby" and isinstance(t[1], str) and core.callee_base(t[1]) not in QUEUE_GROWERS:
                shrink.append((core.callee_base(t[1]), bb))
        ctx.note("queue_mutators:" + tag, sorted({pnorm(t)[1] for k, t, bb in root.T.container_defs(ret[2]) if pnorm(t)[0] == "mutby"
                                                  and isinstance(pnorm(t)[1], str)}))
        ctx.check(not shrink, "NFA-FAIL", b, "queue-only-grows:" + tag, b.loc(shrink[0][1]) if shrink else b.span,
                  "the returned queue must list every visited state (the outputs pass inherits along it): the only mutations allowed are "
                  "additions; found %s" % sorted({s[0] for s in shrink}))
    # queue consumption: q[qi], qi = phi{0, qi+1}
    idx_reads = []
    for vw, bi, c, tj in fv.calls(lambda c: core.callee_base(c.key) in ("core::ops::Index::index", "core::slice::get")):
        cont = vw.op(tj["args"][0])
        if cont[0] == "var" and core.same(cont, ret):
            idx_reads.append((bi, vw.op(tj["args"][1])))
    okq = len(idx_reads) == 1 and m(Phi(K(0), B("Add", ANY, K(1)), req=[0, 1]), idx_reads[0][1])
    ctx.check(okq, "NFA-FAIL", b, "queue-fifo:" + tag, b.span,
              "states must be dequeued in FIFO order: q[qi] with qi = 0, qi+1, …; found %s" % [show(i) for _, i in idx_reads])
    if not okq:
        return
    cur = E(ANY, ANY)  # q[qi]
    qbi = idx_reads[0][0]
    # the edge iteration: pull from states[q[qi]].edges
    epulls = []
    rootpulls = []
    for vw, bi, c, tj in fv.calls(lambda c: core.callee_base(c.key) == "core::iter::Iterator::next"):
        r = vw.op(tj["args"][0])
        if m(F(nfa_state(E(ANY, ANY)), "edges", NS), r):
            epulls.append((bi, r))
        elif m(C("alloc::collections::BTreeMap::values", F(nfa_state(K(0)), "edges", NS)), r):
            rootpulls.append((bi, r))
        else:
            ctx.bad("NFA-FAIL", b, "unexpected-iteration:" + tag, b.loc(bi), "unexpected iteration source %s" % show(r))
    # the queue's additions (push in a loop / extend(iterator) / for_each): the seed = every child of ROOT, in edge order, once;
    # afterwards every visited child
    from .da import Sites
    from . import coll
    SS = Sites(lib, b)
    adds = coll.additions(SS, lambda t: core.same(t, ret), closures=True)
    rootvals = C("alloc::collections::BTreeMap::values", F(nfa_state(K(0)), "edges", NS))
    seeds = [a for a in adds if m(It(OneOf(rootvals, C("core::iter::Iterator::copied", rootvals))), a.val)]
    ctx.check(len(seeds) == 1, "NFA-FAIL", b, "seed-root-children:" + tag, b.span,
              "the queue must be seeded with the children of ROOT (values of states[ROOT].edges)")
    ctx.check(len(epulls) == 1, "NFA-FAIL", b, "edge-iteration:" + tag, b.span,
              "every edge of the dequeued state must be visited (one iteration over states[q[qi]].edges)")
    if len(epulls) != 1 or len(seeds) != 1:
        return
    ebi, esrc = epulls[0]
    esite = (b.path, ebi)
    item = P(C("core::iter::Iterator::next", ANY, site=esite))
    child = F(item, "1", "(tuple)")
    label = F(item, "0", "(tuple)")
    seed_ok = seeds[0].unconditional() and seeds[0].bb not in b.reach(qbi)
    child_adds = [a for a in adds if m(child, a.val)]
    child_push = [a.bb for a in child_adds]
    ctx.check(seed_ok, "NFA-FAIL", b, "seed-push:" + tag, b.span, "each child of ROOT must be pushed on the queue (before the walk starts)")
    ctx.check(len(child_push) == 1 and len(adds) == 2, "NFA-FAIL", b, "enqueue-child:" + tag, b.span,
              "each visited child must be enqueued exactly once; additions: %s" % [show(a.val) for a in adds])
    # fail writes
    S = nfa_state(cur)
    fail_chain = Phi(F(S, "fail", NS), F(nfa_state(ANY), "fail", NS))
    child_write = None
    deferred_fail_value = None
    for (bi, si, st), val in zip(fwrites, vals):
        tgt = root.place(st["lhs"])
        if m(F(nfa_state(child), "fail", NS), tgt):
            child_write = (bi, si)
            opts = [P(LOOKUP(ANY, label, NS)), K(0)]
            if leftmost:
                opts.append(K(1))
            ok = m(Phi(*opts, req=[0, 1] + ([2] if leftmost else [])), val)
            deferred_fail_value = (ok, bi, si, val)
            # the fail chain: first argument of child_id
            for x in members(val):
                if x[0] == "payload" and x[1][0] == "call" and x[1][2] and x[1][2][0][0] == "field" and x[1][2][0][1][0] == "elem":
                    f = x[1][2][0][1][2]
                    okc = all(m(OneOf(F(S, "fail", NS), F(nfa_state(ANY), "fail", NS)), y) for y in members(f) if y[0] != "loop") and \
                        any(m(F(S, "fail", NS), y) for y in members(f))
                    ctx.check(okc, "NFA-FAIL", b, "fail-chain:" + tag, b.loc(bi, si),
                              "the search for a child's fail link must start at the parent's fail link and follow fail links; found %s" % show(f), show(f))
        elif leftmost and m(F(S, "fail", NS), tgt):
            ctx.check(is_const(val, 1), "NFA-LM", b, "output-state-dead:" + tag, b.loc(bi, si),
                      "only DEAD may be assigned to the dequeued state's own fail link; found %s" % show(val))
            # guard: s.output.is_some()
            sw = switches_on(root, lambda d: m(C("core::option::Option::is_some", F(S, "output", NS)), d) or
                             (d[0] == "discr" and m(F(S, "output", NS), d[1])))
            g = False
            for sbi, stj, d in sw:
                arm = bool_arms(stj)[0] if d[0] == "call" else opt_arms(stj)[0]
                if b.edge_guards((sbi, arm), bi):
                    g = True
            ctx.check(g, "NFA-LM", b, "dead-iff-output:" + tag, b.loc(bi, si),
                      "the dequeued state fails to DEAD exactly when it has an output")
            every = True
            for sbi, stj, d in sw:
                arm = bool_arms(stj)[0] if d[0] == "call" else opt_arms(stj)[0]
                if b.edge_guards((sbi, arm), bi) and ebi in b.reach(arm, avoid_blocks=[bi]) and arm != bi:
                    every = False
            ctx.check(every, "NFA-LM", b, "dead-whenever-output:" + tag, b.loc(bi, si),
                      "EVERY state that has an output must fail to DEAD (no extra condition)")
            ctx.check(ebi in b.reachable_from(bi) and bi not in b.reachable_from(ebi, avoid=[qbi]), "NFA-LM", b, "dead-before-children:" + tag, b.loc(bi, si),
                      "the state's own DEAD link must be set before its children are processed")
            # ... and before its own fail link is READ for them: a value of states[cur].fail taken before this write is stale
            # (the children of an output state would be linked from the old link instead of DEAD)
            stale = []
            for rbi, rsi, rst in b.stmts():
                if rst["k"] == "assign" and not rst["lhs"]["proj"] and rst["rv"]["k"] == "use" and rst["rv"]["op"]["k"] in ("copy", "move"):
                    lf = core.last_field({"proj": rst["rv"]["op"]["place"]["proj"]}) if rst["rv"]["op"]["place"]["proj"] else None
                    if lf and lf.get("adt") == NS and lf.get("name") == "fail" and m(F(S, "fail", NS), pnorm(root.T.rvalue(rst["rv"]))):
                        if (rbi == bi and rsi < si) or (rbi != bi and bi in b.reachable_from(rbi, avoid=[qbi])):
                            stale.append((rbi, rsi))
            ctx.check(not stale, "NFA-LM", b, "fail-read-after-dead-write:" + tag, b.loc(*stale[0]) if stale else b.loc(bi, si),
                      "the dequeued state's fail link must be read (to start its children's walks) only AFTER it has been set to DEAD for an "
                      "output state; a read before that write is stale")
        else:
            ctx.bad("NFA-FAIL", b, "fail-target:" + tag, b.loc(bi, si),
                    "unexpected target of a fail-link write: %s" % show(tgt))
    ctx.check(child_write is not None, "NFA-FAIL", b, "child-fail-written:" + tag, b.span,
              "every visited child must get a fail link")
    table_ok = False
    if child_write is not None:
        try:
            table_ok = bool(_fail_table(NR, b, fv, leftmost, esite, child_write))
        except Exception:
            table_ok = False
        ctx.check(table_ok, "NFA-FAIL", b, "decision-table:" + tag, b.loc(*child_write),
                  "evaluated under assumptions on (cursor == DEAD, child exists, next == DEAD, cursor == ROOT, next == ROOT) the value stored "
                  "as a child's fail link must be: %sthe child of the cursor when it exists; %sROOT when cursor and next are both ROOT; "
                  "and otherwise the walk must advance to states[cursor].fail without storing"
                  % ("DEAD when the parent's link is DEAD; " if leftmost else "", "DEAD when next is DEAD; " if leftmost else ""))
    if deferred_fail_value is not None:
        ok_, bi_, si_, val_ = deferred_fail_value
        # the syntactic shape of the stored value, or the decision table that evaluates it row by row
        ctx.check(ok_ or table_ok, "NFA-FAIL", b, "fail-value:" + tag, b.loc(bi_, si_),
                  "a child's fail link must be child_id(f, label) for f on the parent's fail chain, or ROOT%s; found %s"
                  % (", or DEAD" if leftmost else "", show(val_)), show(val_))
    if leftmost:
        ctx.check(any(m(F(S, "fail", NS), root.place(st["lhs"])) for (bi, si, st) in fwrites), "NFA-LM", b,
                  "output-state-dead-present", b.span, "a state with an output must fail to DEAD")
    if child_write and child_push:
        # per edge: write then push, both on every path through the iteration body
        some = None
        sws = switches_on(root, lambda d: d[0] == "discr" and d[1][0] == "call" and d[1][3] == esite)
        if len(sws) == 1:
            sbi, stj, _ = sws[0]
            some, none = opt_arms(stj)
            wb = child_write[0]
            pb = child_push[0]
            ok = ebi not in (b.reachable_from(some, avoid=[wb]) - {some} if some != wb else set()) and \
                ebi not in (b.reachable_from(some, avoid=[pb]) - {some} if some != pb else set())
            ctx.check(ok, "NFA-FAIL", b, "every-edge-linked-and-enqueued:" + tag, b.loc(wb),
                      "on every path through the edge loop body the child's fail link is written and the child enqueued")
    # the chain walk restarts at the parent's fail link for EVERY child: the walk variable is modified by the walk,
    # so its initialisation from s.fail must lie inside the per-edge loop body
    cids = child_lookups(fv, root, NS)
    if len(cids) == 1 and len(sws_e := switches_on(root, lambda d: d[0] == "discr" and d[1][0] == "call" and d[1][3] == esite)) == 1:
        wl = state_local_of(root, b, cids[0][1])
        some_e, none_e = opt_arms(sws_e[0][1])
        inits = []
        if wl is not None:
            for d in b.defs().get(wl, []):
                if d[0] == "rv":
                    t = pnorm(root.T.rvalue(d[3]))
                    if m(F(S, "fail", NS), t):
                        inits.append(d[1])
        ctx.check(bool(inits) and all(b.edge_guards((sws_e[0][0], some_e), ib) for ib in inits) and
                  not b.reaches(ebi, cids[0][0], avoid=set(inits)), "NFA-FAIL", b, "chain-restarts-per-child:" + tag, b.loc(cids[0][0]),
                  "for every child the search for its fail link must start again at the parent's fail link (the walk variable is "
                  "advanced by the walk and must be re-initialised inside the edge loop)")
    # guards of the constant results (ROOT only when the chain reached ROOT; DEAD only on a DEAD test)
    _const_result_guards(ctx, NR, b, fv, leftmost, tag, table_ok)
    # the chain walk must advance: fail_id := states[fail_id].fail inside the inner loop
    adv = False
    for vw in fv.views:
        for bi, si, st in vw.body.stmts():
            if st["k"] == "assign" and not st["lhs"]["proj"]:
                t = pnorm(vw.T.rvalue(st["rv"]))
                if m(F(nfa_state(ANY), "fail", NS), t) and vw.body.in_cycle(bi):
                    adv = True
    ctx.check(adv, "NFA-FAIL", b, "chain-advances:" + tag, b.span, "the fail-chain walk must advance to states[fail_id].fail")


def _fail_table(NR, b, fv, leftmost, esite, child_write):
    """Decision table of the per-child fail computation, evaluated on the MIR under assumptions on the atomic conditions
         CD: cursor == DEAD   C: child_id(cursor, label) is Some   ND: next == DEAD   CR: cursor == ROOT   NR: next == ROOT
       (cursor = the walk variable, starting at the parent's fail link; next = states[cursor].fail)
       leftmost:  CD -> DEAD | C -> that child | ND -> DEAD | CR & NR -> ROOT | otherwise cursor := next, retry
       standard:              C -> that child |            | CR & NR -> ROOT | otherwise cursor := next, retry
    The value stored into the child's fail link is evaluated per row (values_under, constants refined by the assumed equalities),
    so `break next` under the guard `next == DEAD` is the same as `break DEAD`.  True iff every row holds."""
    root = fv.root
    NS = NR.NS
    wbi, wsi = child_write
    st = b.blocks[wbi]["stmts"][wsi]
    if st["rv"]["k"] != "use":
        return False
    vop = st["rv"]["op"]
    sws = switches_on(root, lambda d: d[0] == "discr" and d[1][0] == "call" and d[1][3] == esite)
    if len(sws) != 1:
        return False
    head = opt_arms(sws[0][1])[0]

    def is_cur_fail(y):
        return y[0] == "field" and y[3] == "fail" and y[2] == NS and y[1][0] == "elem" and y[1][2][0] == "elem" and y[1][2][1][0] == "var"

    def cursor(x):
        ms = [y for y in members(x) if y[0] != "loop"]
        return bool(ms) and all(y[0] == "field" and y[3] == "fail" and y[2] == NS for y in ms) and any(is_cur_fail(y) for y in ms)

    def nxt(x):
        return x[0] == "field" and x[3] == "fail" and x[2] == NS and x[1][0] == "elem" and not is_cur_fail(x) and \
            (cursor(x[1][2]) or x[1][2][0] == "loop" or (x[1][2][0] == "phi" and any(is_cur_fail(y) for y in x[1][2][1])))

    def eq(kind, c):
        def f(t):
            if t[0] != "bin" or t[1] != "Eq":
                return False
            for a_, b_ in ((t[2], t[3]), (t[3], t[2])):
                if is_const(a_, c) and kind(b_):
                    return True
            return False
        return f
    cids = child_lookups(fv, root, NS)
    if not cids:
        return False
    csites = {(b.path, bi) for bi, _, _ in cids}
    is_child = lambda t: t[0] == "call" and t[3] in csites
    if not all(cursor(st_) for _, st_, _ in cids):
        return False
    wl = state_local_of(root, b, cids[0][1])
    adv = {bi for bi, si, s_ in b.stmts() if s_["k"] == "assign" and not s_["lhs"]["proj"] and s_["lhs"]["local"] == wl and b.in_cycle(bi)
           and nxt(pnorm(root.T.rvalue(s_["rv"])))} if wl is not None else set()
    pull = esite[1]
    ROOT, DEAD = ("const", 0, "u32", None), ("const", 1, "u32", None)

    def row(CD, C, ND, CR, NR_):
        atoms = []
        eqs = []
        if CD is not None:
            atoms.append((eq(cursor, 1), CD))
        if ND is not None:
            atoms.append((eq(nxt, 1), ND))
            if ND:
                eqs.append((nxt, DEAD))
        if CR is not None:
            atoms.append((eq(cursor, 0), CR))
        if NR_ is not None:
            atoms.append((eq(nxt, 0), NR_))
            if NR_:
                eqs.append((nxt, ROOT))
        some = [(is_child, C)] if C is not None else []
        vis = cond.explore(root, [head], atoms, stop=[wbi, pull], some_atoms=some)
        if vis is None:
            return None, None
        vals = None
        if wbi in vis:
            ex = cond.Explorer(root, atoms, some, eqs)
            vals = {pnorm(ex.value_of(t)) for t in cond.values_under(root, [head], atoms, vop, site_bb=wbi, some_atoms=some)}
        return vis, vals

    def only(vals, pred):
        return bool(vals) and all(all(pred(y) for y in members(x)) for x in vals)
    is_dead = lambda y: is_const(y, 1)
    is_root = lambda y: is_const(y, 0)
    is_chld = lambda y: y[0] == "payload" and is_child(y[1])
    if leftmost:
        vis, vals = row(True, None, None, None, None)
        if vis is None or not only(vals, is_dead) or (vis & adv):
            return False
    cd = False if leftmost else None
    vis, vals = row(cd, True, None, None, None)
    if vis is None or not only(vals, is_chld):
        return False
    if leftmost:
        vis, vals = row(False, False, True, None, None)
        if vis is None or not only(vals, is_dead):
            return False
    nd = False if leftmost else None
    vis, vals = row(cd, False, nd, True, True)
    if vis is None or not only(vals, is_root):
        return False
    for cr, nr in ((True, False), (False, True), (False, False)):
        vis, vals = row(cd, False, nd, cr, nr)
        if vis is None or wbi in vis or not (vis & adv):
            return False
    return True


def _const_result_guards(ctx, NR, b, fv, leftmost, tag, table_ok=False):
    """`break ROOT` only when the state just tried (the argument of child_id) is ROOT itself, i.e. after
    ROOT's own edge has been tried; `DEAD` results only under an `== DEAD` test."""
    root = fv.root
    tried = [st_ for _, st_, _ in child_lookups(fv, root, NR.NS)]
    for bi, si, st in b.stmts():
        if st["k"] != "assign" or st["lhs"]["proj"]:
            continue
        rv = st["rv"]
        if rv["k"] == "use" and rv["op"]["k"] == "const" and rv["op"].get("def") in (
                "nfa_builder::ROOT_STATE_ID", "nfa_builder::DEAD_STATE_ID") and b.in_cycle(bi):
            which = 0 if rv["op"]["def"].endswith("ROOT_STATE_ID") else 1
            sws = switches_on(root, lambda d: d[0] == "bin" and d[1] == "Eq" and (is_const(d[2], which) or is_const(d[3], which)))
            if which == 0:
                # the compared value must be the state whose edge was just tried
                sws = [(sbi, stj, d) for sbi, stj, d in sws
                       if any(core.same(d[3] if is_const(d[2], 0) else d[2], t) for t in tried)]
            g = any(b.edge_guards((sbi, bool_arms(stj)[0]), bi) for sbi, stj, d in sws)
            ctx.check(g or table_ok, "NFA-FAIL" if which == 0 else "NFA-LM", b, "%s-result-guarded:%s" % ("root" if which == 0 else "dead", tag),
                      b.loc(bi, si), ("a ROOT fail link may be produced only after ROOT's own edge was tried: guard `fail_id == ROOT` on the "
                                      "state passed to child_id") if which == 0 else
                      "a constant DEAD fail link may be produced only under an `== DEAD` test")
    if leftmost:
        # DEAD propagation: parent's fail == DEAD  => child DEAD ; chain hits DEAD => DEAD
        sws = switches_on(root, lambda d: d[0] == "bin" and d[1] == "Eq" and (is_const(d[2], 1) or is_const(d[3], 1)))
        ctx.check(len(sws) >= 2 or table_ok, "NFA-LM", b, "dead-propagation", b.span,
                  "leftmost fail construction needs both DEAD tests (parent's fail link; next link on the chain); found %d" % len(sws))


# ----------------------------------------------------------------------------- add

def rule_add(ctx, R, NR, rules=None):
    """VALID-DUP, VALID-EMPTY, NFA-LF, STAT-NS, STAT-SHADOW, VAL-ADD on NfaBuilder::add."""
    if not NR.ok:
        return
    lib = ctx.lib
    b = NR.add
    NS, N = NR.NS, NR.N
    fv = FnView(lib, b)
    root = fv.root

    def want(r):
        return rules is None or r in rules

    # exits
    ok_exits = []
    err_exits = []
    for bi, si, st in b.stmts():
        if st["k"] == "assign" and st["lhs"]["local"] == 0 and not st["lhs"]["proj"]:
            rv = st["rv"]
            if rv["k"] == "aggregate" and rv.get("adt") == RESULT:
                (ok_exits if rv["variant"] == "Ok" else err_exits).append((bi, si))
    errcalls = {}   # kind -> [(view, bb)]
    for vw, bi, c, tj in fv.calls(lambda c: c.adt == "errors::DaachorseError"):
        errcalls.setdefault(c.name, []).append((vw, bi))
    # --- duplicate guard: a switch one of whose arms leads to Err(duplicate_pattern) and the other not
    dup_guards = []
    for vw, bi in errcalls.get("duplicate_pattern", []):
        if vw is not root:
            continue
        cands = []
        for sbi in sorted(b.live_blocks()):
            t = b.blocks[sbi]["term"]
            if t["k"] == "switch":
                succs = b.succ(sbi)
                reach = [bi in b.reach(s, avoid_blocks=[sbi]) for s in succs]
                if any(reach) and not all(reach) and b.dominates(sbi, bi):
                    cands.append(sbi)
        # the guard of this error site = the nearest such branch (dominated by all the others)
        for g in cands:
            if all(b.dominates(o, g) for o in cands):
                dup_guards.append(g)
    dup_guards = sorted(set(dup_guards))
    # nearest guard = the one dominated by all others (used for the len rule)
    dup_guard = None
    for g in dup_guards:
        if all(b.dominates(o, g) for o in dup_guards):
            dup_guard = g
    if want("VALID-DUP"):
        if not dup_guards:
            ctx.bad("VALID-DUP", b, "duplicate-guard", b.span, "no branch leading to Err(duplicate_pattern) found in add")
        # correlated mode predicate: `self.match_kind.is_leftmost_first()` is a pure function of a field
        # add never writes, so all tests of it agree on one call; paths are explored per value
        mode_sw = switches_on(root, lambda d: d[0] == "call" and isinstance(d[1], str) and d[1].endswith("is_leftmost_first")
                              and m(F(Par(1), "match_kind"), d[2][0]))
        mk_written = any(core.last_field(st["lhs"]) and core.last_field(st["lhs"])["name"] == "match_kind"
                         for _, _, st in b.stmts() if st["k"] == "assign")
        assumptions = [("any", [])]
        if mode_sw and not mk_written:
            assumptions = []
            for val in (True, False):
                cut = []
                for sbi, stj, d in mode_sw:
                    tt, ff = bool_arms(stj)
                    cut.append((sbi, ff if val else tt))
                assumptions.append(("leftmost-first" if val else "other-kinds", cut))
        for bi, si in ok_exits:
            lf = _is_lf_shadow_exit(b, root, bi)
            where = "leftmost-first-shadow-branch" if lf else "registration"
            bad_modes = [nm for nm, cut in assumptions if bi in b.reach(0, avoid_blocks=dup_guards, avoid_edges=cut)]
            good = bool(dup_guards) and not bad_modes
            ctx.check(good, "VALID-DUP", b,
                      ("ok-exit-not-dominated-by-duplicate-guard@" + where) if not good else ("ok-exit-behind-duplicate-guard@" + where),
                      b.loc(bi, si),
                      "an Ok exit of add (%s) is reachable without passing a duplicate guard %s (mode: %s)"
                      % (where, ["bb%d" % g for g in dup_guards], ",".join(bad_modes)))
        # a set-membership guard (`!seen.insert(pattern)`) can only catch repeats of patterns that were recorded:
        # unless the unrecorded paths have their own complete mechanism (a walk of the existing trie on the shadow
        # branch), every Ok exit of the mode in which the set is consulted must have passed the insert
        set_guards = []
        for vw, bi2, c, tj in fv.calls(lambda c: core.callee_base(c.key) in ("alloc::collections::BTreeSet::insert", "alloc::collections::BTreeSet::contains",
                                                                             "alloc::collections::BTreeMap::insert")):
            if vw is root and any(x[0] == "param" and x[1] == 2 for a in tj["args"][1:] for x in walk(vw.op(a))):
                if any(bi2 in b.reach(0) and g in b.reach(bi2) and b.dominates(bi2, g) for g in dup_guards):
                    set_guards.append(bi2)
        if set_guards:
            for nm, cut in assumptions:
                # is the set consulted in this mode at all?
                active = [g for g in set_guards if g in b.reach(0, avoid_edges=cut)]
                if not active:
                    continue
                for bi, si in ok_exits:
                    if bi not in b.reach(0, avoid_edges=cut):
                        continue
                    skipped = bi in b.reach(0, avoid_blocks=active, avoid_edges=cut)
                    lf = _is_lf_shadow_exit(b, root, bi)
                    ctx.check(not skipped, "VALID-DUP", b, "seen-set-records-every-accepted-pattern@" + ("leftmost-first-shadow-branch" if lf else "registration"),
                              b.loc(bi, si), "in mode `%s` an Ok exit is reachable without the pattern having been recorded in the set that the "
                              "duplicate guard consults (a later repeat of that pattern on the other path cannot be detected)" % nm)
    # --- zero-length guard dominates all trie mutations
    muts = []
    for vw, bi, c, tj in fv.calls():
        base = core.callee_base(c.key)
        if vw is root and base in ("alloc::collections::BTreeMap::insert", VEC_PUSH, "core::option::Option::replace"):
            muts.append((bi, c.name))
    lenw = [(bi, si) for bi, si, st in b.stmts() if st["k"] == "assign" and core.last_field(st["lhs"]) and
            core.last_field(st["lhs"])["adt"] == N and core.last_field(st["lhs"])["name"] == "len"]
    if want("VALID-EMPTY"):
        ia = [(vw, bi) for vw, bi in errcalls.get("invalid_argument", [])]
        # the guard: Try::branch switch consuming ok_or_else(NonZero::new(len)) -> residual
        # (or an explicit `match NonZeroU32::new(len) { Some(n) => n, None => return Err(invalid_argument(..)) }`)
        zg = None
        zcont = None
        for sbi, stj, d in switches_on(root, lambda d: d[0] == "discr" and d[1][0] == "call"):
            x = d[1]
            if core.callee_base(x[1]) == "core::ops::Try::branch":
                arg = x[2][0]
                if arg[0] == "call" and core.callee_base(arg[1]) == "core::option::Option::ok_or_else" and \
                        arg[2][0][0] == "call" and core.callee_base(arg[2][0][1]) == "core::num::NonZero::new":
                    zg = (sbi, stj)
                    zcont = [tb for val, tb in stj["targets"] if val == 0]
            elif core.callee_base(x[1]) == "core::num::NonZero::new":
                some_, none_ = opt_arms(stj)
                # the None arm leads to an invalid_argument error return, never on to the trie
                if any(bi_ in b.reach(none_, avoid_blocks=[some_]) for vw_, bi_ in ia if vw_ is root) and \
                        not any(mb in b.reach(none_, avoid_blocks=[sbi]) for mb, _ in muts):
                    zg = (sbi, stj)
                    zcont = [some_]
        zsem = False
        if zg is None:
            # any other placement of the guard (e.g. in an inlined helper whose Result is propagated): evaluated under the
            # assumption NonZeroU32::new(len) is None / Some
            nz = [bi_ for vw_, bi_, c_, tj_ in fv.calls(lambda c: core.callee_base(c.key) == "core::num::NonZero::new") if vw_ is root]
            if len(nz) == 1:
                zsite = (b.path, nz[0])
                is_nz = lambda t: t[0] == "call" and t[3] == zsite
                mb = {bi_ for bi_, _ in muts} | {bi_ for bi_, _ in lenw}
                v_zero = cond.explore(root, [0], [], some_atoms=[(is_nz, False)])
                v_pos = cond.explore(root, [0], [], some_atoms=[(is_nz, True)])
                zsem = v_zero is not None and v_pos is not None and not (v_zero & mb) and bool(v_pos & mb) and bool(v_zero & set(b.return_blocks()))
        ctx.check((zg is not None or zsem) and len(ia) >= 2, "VALID-EMPTY", b, "zero-length-guard", b.span,
                  "add must reject a zero-length pattern with invalid_argument (NonZero::new(len).ok_or_else(..)?)")
        if zg:
            sbi, stj = zg
            cont = zcont[0] if zcont else None
            for bi, nm in muts:
                ctx.check(cont is not None and b.edge_guards((sbi, cont), bi), "VALID-EMPTY", b, "mutation-after-guard:" + nm, b.loc(bi),
                          "the trie may be modified only after the zero-length check succeeded")
            for bi, si in lenw:
                ctx.check(cont is not None and b.edge_guards((sbi, cont), bi), "VALID-EMPTY", b, "len-after-guard", b.loc(bi, si),
                          "len may be incremented only after the zero-length check succeeded")
    # --- len incremented once, after the duplicate guard, by one
    if want("VALID-NONEMPTY"):
        ctx.check(len(lenw) == 1, "VALID-NONEMPTY", b, "single-len-increment", b.span, "add must increment len exactly once")
        for bi, si in lenw:
            t = pnorm(root.T.rvalue(b.blocks[bi]["stmts"][si]["rv"]))
            ctx.check(m(B("Add", F(Par(1), "len"), K(1)), t), "VALID-NONEMPTY", b, "len-plus-one", b.loc(bi, si),
                      "len must be incremented by one per registered pattern; found %s" % show(t))
            if dup_guard is not None:
                ctx.check(bi not in b.reachable_from(0, avoid=[dup_guard]), "VALID-NONEMPTY", b, "len-after-duplicate-guard",
                          b.loc(bi, si), "len counts registered patterns: incremented only past the duplicate guard")
            reg_exits = [e for e in ok_exits if not _is_lf_shadow_exit(b, root, e[0])]
            ctx.check(bool(reg_exits) and all(b.dominates(bi, e[0]) for e in reg_exits), "VALID-NONEMPTY", b, "len-counts-every-registration", b.loc(bi, si),
                      "every successful registration increments len (the empty-collection test relies on it)")
    # --- NFA-LF
    if want("NFA-LF") or want("STAT-SHADOW"):
        _nfa_lf(ctx, NR, b, fv, want)
    # --- STAT-NS: state creation paired with edge insert, id = states.len()
    if want("STAT-NS"):
        _stat_ns(ctx, NR, b, fv)
    # --- VAL-ADD
    if want("VAL-ADD"):
        _val_add(ctx, NR, b, fv)


def _is_lf_shadow_exit(b, root, bi):
    sws = switches_on(root, lambda d: d[0] == "call" and d[1].endswith("is_leftmost_first"))
    for sbi, stj, d in sws:
        tt, ff = bool_arms(stj)
        if b.edge_guards((sbi, tt), bi):
            return True
    return False


def _walk_state_pattern(NR):
    """the insertion cursor: phi{ROOT, child_id payload, fresh id}"""
    return Phi(K(0), P(LOOKUP(ANY, ANY, NR.NS)), C(VEC_LEN, F(Par(1), "states")), req=[0, 1, 2])


def _nfa_lf(ctx, NR, b, fv, want):
    root = fv.root
    NS = NR.NS
    sws = switches_on(root, lambda d: d[0] == "call" and d[1].endswith("is_leftmost_first") and
                      m(F(Par(1), "match_kind"), d[2][0]))
    inner_all = switches_on(root, lambda d: (m(C("core::option::Option::is_some", F(nfa_state(ANY), "output", NS)), d)) or
                            (d[0] == "discr" and m(F(nfa_state(ANY), "output", NS), d[1])))
    cands = []
    for sbi_, stj_, d_ in sws:
        tt_, ff_ = bool_arms(stj_)
        inn = [(ibi, itj, d2) for ibi, itj, d2 in inner_all if b.edge_guards((sbi_, tt_), ibi)]
        if inn:
            cands.append((sbi_, stj_, d_, inn))
    if want("NFA-LF"):
        ctx.check(len(cands) == 1, "NFA-LF", b, "leftmost-first-test", b.span,
                  "add must test match_kind.is_leftmost_first() and then whether the cursor state already ends a pattern "
                  "(shadowed patterns are dropped at insertion); found %d such tests" % len(cands))
    if len(cands) != 1:
        return
    sbi, stj, d, inner = cands[0]
    tt, ff = bool_arms(stj)
    okin = len(inner) == 1
    if okin:
        ibi, itj, d2 = inner[0]
        arm = bool_arms(itj)[0] if d2[0] == "call" else opt_arms(itj)[0]
        # the index of the tested state is the insertion cursor
        st_idx = d2[2][0][1][2] if d2[0] == "call" else d2[1][1][2]
        cur_ok = m(_walk_state_pattern(NR), st_idx)
        # the arm returns Ok without touching the trie
        rets = b.reachable_from(arm)
        touches = [bi for vw, bi, c, tj in fv.calls() if vw is root and bi in rets and
                   core.callee_base(c.key) in ("alloc::collections::BTreeMap::insert", VEC_PUSH, "core::option::Option::replace")]
        childcalls = [bi for bi, _, _ in child_lookups(fv, root, NS)]
        before_descend = all(b.dominates(sbi, cb) for cb in childcalls) and bool(childcalls)
        if want("NFA-LF"):
            ctx.check(cur_ok and not touches, "NFA-LF", b, "shadow-return", b.loc(ibi),
                      "under leftmost-first, add must return (registering nothing) when the cursor state already ends a pattern; "
                      "tested state index %s" % show(st_idx), show(st_idx))
            ctx.check(b.in_cycle(ibi), "NFA-LF", b, "shadow-test-every-step", b.loc(ibi),
                      "the shadow test must be made at every step of the descent (inside the per-label loop)")
        # ... and unconditionally: under leftmost-first no path through one iteration may bypass it (evaluated under the
        # assumption is_leftmost_first() == true, every other condition left open)
        pulls = [bi for vw, bi, c, tj in fv.calls(lambda c: core.callee_base(c.key) == "core::iter::Iterator::next")
                 if vw is root and b.in_cycle(bi) and b.dominates(bi, ibi) and bi in b.reach(ibi)]
        oku = len(pulls) == 1
        if oku:
            psw = switches_on(root, lambda d_: d_[0] == "discr" and d_[1][0] == "call" and d_[1][3] == (b.path, pulls[0]))
            oku = len(psw) == 1
            if oku:
                head = opt_arms(psw[0][1])[0]
                lfsite = d[3]
                oku = cond.must_pass(root, [head], [(lambda t: t[0] == "call" and t[3] == lfsite, True)], [ibi],
                                     [pulls[0]] + b.return_blocks())
        ctx.check(oku, "NFA-LF" if want("NFA-LF") else "STAT-SHADOW", b, "shadow-test-unconditional", b.loc(ibi),
                  "under leftmost-first EVERY step of the descent tests the cursor state's output before moving on "
                  "(no further condition may skip the test: a pattern below an already registered prefix must be dropped "
                  "whether or not its path already exists in the trie)")
        if want("STAT-SHADOW") or want("NFA-LF"):
            ctx.check(before_descend, "STAT-SHADOW", b, "shadow-test-before-node-creation", b.loc(ibi),
                      "the shadow test precedes the child lookup / node creation of the same step")
    elif want("NFA-LF"):
        ctx.bad("NFA-LF", b, "shadow-test", b.loc(sbi), "the leftmost-first branch must test whether the cursor state has an output")


def _stat_ns(ctx, NR, b, fv):
    root = fv.root
    lib = ctx.lib
    N, NS = NR.N, NR.NS
    pushes = [(bi, root.op(tj["args"][1])) for vw, bi, c, tj in fv.calls(lambda c: c.key == VEC_PUSH)
              if vw is root and m(F(Par(1), "states"), vw.op(tj["args"][0]))]
    inserts = [(bi, [root.op(a) for a in tj["args"]]) for vw, bi, c, tj in fv.calls(lambda c: core.callee_base(c.key) == "alloc::collections::BTreeMap::insert")
               if vw is root]
    ctx.check(len(pushes) == 1 and len(inserts) == 1, "STAT-NS", b, "one-node-per-missing-child", b.span,
              "add creates a node at exactly one site, together with exactly one edge insertion; pushes=%d inserts=%d" % (len(pushes), len(inserts)))
    if len(pushes) != 1 or len(inserts) != 1:
        return
    pbi, pv = pushes[0]
    ibi, ia = inserts[0]
    newid = C(VEC_LEN, F(Par(1), "states"))
    ok = m(F(nfa_state(_walk_state_pattern(NR)), "edges", NS), ia[0]) and m(newid, ia[2]) and \
        m(P(C("core::iter::Iterator::next", Par(2))), ia[1])
    ctx.check(ok, "STAT-NS", b, "edge-links-new-node", b.loc(ibi),
              "the edge inserted must be (current label -> states.len()) on the cursor state; found insert(%s)" % ", ".join(show(x) for x in ia))
    # pairing: insert and push on the same paths
    ctx.check(b.dominates(ibi, pbi) or b.dominates(pbi, ibi), "STAT-NS", b, "insert-push-paired", b.loc(pbi),
              "node creation and edge insertion must happen together")
    first, second = (ibi, pbi) if b.dominates(ibi, pbi) else (pbi, ibi)
    rets = b.return_blocks()
    ctx.check(all(r not in b.reachable_from(first, avoid=[second]) for r in rets) and
              not b.reaches(first, first, avoid=[second]), "STAT-NS", b, "insert-push-both", b.loc(first),
              "after the first of (insert, push) the other must follow on every path")
    # only on the missing-child arm
    cc = [bi for bi, _, _ in child_lookups(fv, root, NS)]
    if len(cc) == 1:
        # decided under the assumption "the lookup found a child" / "found none" (the result may be re-wrapped before it is tested)
        lsite = (b.path, cc[0])
        is_look = lambda t: t[0] == "call" and t[3] == lsite
        pl_ = [bi2 for vw, bi2, c, tj in fv.calls(lambda c: core.callee_base(c.key) == "core::iter::Iterator::next") if vw is root and bi2 in b.reach(cc[0])]
        v_hit = cond.explore(root, [cc[0]], [], stop=pl_, some_atoms=[(is_look, True)])
        v_miss = cond.explore(root, [cc[0]], [], stop=pl_, some_atoms=[(is_look, False)])
        ctx.check(v_hit is not None and v_miss is not None and pbi not in v_hit and ibi not in v_hit and pbi in v_miss and ibi in v_miss,
                  "STAT-NS", b, "create-only-if-missing", b.loc(pbi),
                  "a node is created only when the cursor state has no child for the label")
    # the pushed state is a default state
    ctx.check(any(x[0] == "call" and "Default::default" in str(x[1]) for x in walk(pv)), "STAT-NS", b, "fresh-default-state", b.loc(pbi),
              "a new node must be a default (empty) state; found %s" % show(pv))
    # states is pushed nowhere else; new() creates exactly root + dead
    _vec_effects(ctx, lib, N, "states", {VEC_PUSH: [b.key]}, "STAT-NS")
    nb = NR.new
    nfv = FnView(lib, nb)
    lit = [t for bi, si, st in nb.stmts() if st["k"] == "assign" and st["rv"]["k"] == "aggregate" and st["rv"].get("adt") == N
           for t in [pnorm(nfv.root.T.rvalue(st["rv"]))]]
    ok = False
    arrays = [len(st["rv"]["ops"]) for bi, si, st in nb.stmts() if st["k"] == "assign" and st["rv"]["k"] == "aggregate"
              and st["rv"].get("akind") == "array"]
    for t in lit:
        sts = dict(t[3]).get("states")
        n = _count_initial_states(sts)
        if n is None and len(arrays) == 1:
            n = arrays[0]      # vec![a, b] lowers to a boxed array literal written through a raw pointer
        ok = n == 2
        ctx.check(ok, "STAT-NS", nb, "two-initial-states", nb.span,
                  "a new NFA must start with exactly two states (root, dead); found %s" % (n if n is not None else show(sts)))
        ln = dict(t[3]).get("len")
        ctx.check(ln is not None and is_const(ln, 0), "VALID-NONEMPTY", nb, "len-starts-at-zero", nb.span, "len must start at 0")
    if not lit:
        ctx.missing("STAT-NS", "NFA literal in new()")


def _count_initial_states(t):
    # vec![a, b] lowers to into_vec(box [a, b]) / from an array aggregate
    for x in walk(t):
        if x[0] == "array":
            return len(x[1])
    return None


def pat_iter_origin(t):
    from .pat import iter_origin
    return iter_origin(t)


def _val_add(ctx, NR, b, fv):
    root = fv.root
    NS = NR.NS
    reps = [(bi, [root.op(a) for a in tj["args"]]) for vw, bi, c, tj in fv.calls(lambda c: core.callee_base(c.key) == "core::option::Option::replace")
            if vw is root]
    ctx.check(len(reps) == 1, "VAL-ADD", b, "single-registration", b.span, "add registers the (value, length) pair at exactly one site")
    if len(reps) != 1:
        return
    bi, args = reps[0]
    tgt, val = args
    ok_t = m(F(nfa_state(_walk_state_pattern(NR)), "output", NS), tgt)
    ctx.check(ok_t, "VAL-ADD", b, "stored-at-terminal-state", b.loc(bi),
              "the pair must be stored at the state reached by walking the whole pattern; target %s" % show(tgt), show(tgt))
    # value = param value ; length = NonZero(sum of num_bytes over the whole pattern)
    okv = val[0] == "tuple" and len(val[1]) == 2 and val[1][0][0] == "param" and val[1][0][1] == 3
    ctx.check(okv, "VAL-ADD", b, "value-is-parameter", b.loc(bi), "the stored value must be the `value` parameter; found %s" % show(val))
    if val[0] == "tuple" and len(val[1]) == 2:
        ln = val[1][1]
        fold = [x for x in walk(ln) if x[0] == "call" and core.callee_base(x[1]) == "core::iter::Iterator::fold"]
        okl = len(fold) == 1 and m(C("core::slice::iter", Par(2)), fold[0][2][0]) and is_const(fold[0][2][1], 0)
        if okl:
            clos = fold[0][2][2]
            cr = fv.closure_ret(clos[1]) if clos[0] == "closure" else None
            okl = cr is not None and m(B("Add", ("acc", ANY), C(lambda k: k.endswith("EdgeLabel::num_bytes"), ("item", ANY))), cr)
            ctx.check(okl, "VAL-ADD", b, "length-sums-num_bytes", b.loc(bi),
                      "the pattern length must be the sum of num_bytes() over all labels; fold closure returns %s" % (show(cr) if cr else "?"))
        else:
            # explicit accumulation: n = 0; for c in pattern { n += c.num_bytes() }  (every label, unconditionally)
            nb = C(lambda k: k.endswith("EdgeLabel::num_bytes"), It(OneOf(Par(2), C("core::slice::iter", Par(2)))))
            accs = [x for x in walk(ln) if x[0] == "phi" and m(Phi(B("Add", ANY, nb), K(0), req=[0, 1]), x)]
            okl = len(accs) >= 1
            if okl:
                # the summing loop's pull: every pulled label reaches the addition
                lp = [(bi2, tj) for vw, bi2, c, tj in fv.calls(lambda c: core.callee_base(c.key) == "core::iter::Iterator::next")
                      if vw is root and m(Par(2), strip_iter(pat_iter_origin(root.op(tj["args"][0]))))]
                nbc = [bi2 for vw, bi2, c, tj in fv.calls(lambda c: c.key.split("@")[0].endswith("EdgeLabel::num_bytes")) if vw is root]
                okl = False
                for pbi, ptj in lp:
                    sw_ = switches_on(root, lambda d: d[0] == "discr" and d[1][0] == "call" and d[1][3] == (b.path, pbi))
                    if len(sw_) == 1 and nbc:
                        some_ = opt_arms(sw_[0][1])[0]
                        if any(b.edge_guards((sw_[0][0], some_), x) and pbi not in (b.reach(some_, avoid_blocks=[x]) - {some_}) for x in nbc):
                            okl = True
            ctx.check(okl, "VAL-ADD", b, "length-sums-num_bytes", b.loc(bi),
                      "the stored length must be the sum of num_bytes() over all labels of the pattern; found %s" % show(ln))
    # the walk consumes every label of the pattern: one pull over param pattern, cursor advanced each step
    cids = [bi2 for bi2, _, _ in child_lookups(fv, root, NS)]
    pulls = [(bi2, root.op(tj["args"][0])) for vw, bi2, c, tj in fv.calls(lambda c: core.callee_base(c.key) == "core::iter::Iterator::next")
             if vw is root and any(bi2 in b.reach(x) and x in b.reach(bi2) for x in cids)]
    ctx.check(len(pulls) == 1 and m(Par(2), strip_iter(pat_iter_origin(pulls[0][1]))), "VAL-ADD", b, "walk-whole-pattern", b.span,
              "add must walk every label of the pattern parameter")
    if len(pulls) == 1:
        # registration only after the loop ended (None arm of the pull)
        sw = switches_on(root, lambda d: d[0] == "discr" and d[1][0] == "call" and d[1][3] == (b.path, pulls[0][0]))
        if len(sw) == 1:
            sbi, stj, _ = sw[0]
            some, none = opt_arms(stj)
            ctx.check(b.edge_guards((sbi, none), bi), "VAL-ADD", b, "register-after-walk", b.loc(bi),
                      "the pair is stored only after the whole pattern has been walked")


# ----------------------------------------------------------------------------- EdgeLabel (CW-NB)

def rule_child_id(ctx, R, NR):
    """NFA-CHILD: a private child-lookup helper (child_id), if the builder has one, is the edge-map lookup of label c at state
    s.  The helper is not an anchor: the normal form inlines it, and the NFA rules are stated on the lookup expression
    `states[s].edges.get(&c)` itself (LOOKUP), so a builder that writes the lookup in place is covered by the same rules."""
    if not NR.ok:
        return
    lib = ctx.lib
    cands = [hb for hb in list(getattr(lib, "helper_bodies", {}).values()) + list(lib.bodies.values())
             if hb.j.get("impl_adt") == NR.N and hb.name == "child_id" and not hb.is_closure]
    lookups = 0
    for fb_ in [NR.add] + list(NR.fail_passes):
        if fb_ is not None:
            fv_ = FnView(lib, fb_)
            lookups += len(child_lookups(fv_, fv_.root, NR.NS))
    ctx.check(lookups >= 3, "NFA-CHILD", NR.add, "lookups-present", NR.add.span,
              "the insertion walk and both fail passes look children up in states[s].edges; found %d lookups" % lookups)
    for b in cands:
        fv = FnView(lib, b)
        t = pnorm(fv.resolve(fv.root.ret()))
        look = C(BT_GET, F(nfa_state(Par(2)), "edges", NR.NS), Par(3))
        ok = m(look, t)
        if not ok and m(Phi(("agg", OPTION, "None", ()), ("agg", OPTION, "Some", (("0", P(look)),)), req=[0, 1]), t):
            # `match edges.get(&c) { Some(&id) => Some(id), None => None }`: Some exactly when the lookup is Some
            root = fv.root
            is_look = lambda x: m(look, x)
            somes = {bi for bi, si, st in b.stmts() if st["k"] == "assign" and st["lhs"]["local"] == 0 and not st["lhs"]["proj"] and
                     st["rv"]["k"] == "aggregate" and st["rv"].get("variant") == "Some"}
            nones = {bi for bi, si, st in b.stmts() if st["k"] == "assign" and st["lhs"]["local"] == 0 and not st["lhs"]["proj"] and
                     st["rv"]["k"] == "aggregate" and st["rv"].get("variant") == "None"}
            v_hit = cond.explore(root, [0], [], some_atoms=[(is_look, True)])
            v_miss = cond.explore(root, [0], [], some_atoms=[(is_look, False)])
            ok = v_hit is not None and v_miss is not None and bool(v_hit & somes) and not (v_hit & nones) and bool(v_miss & nones) and not (v_miss & somes)
        ctx.check(ok, "NFA-CHILD", b, "edge-lookup", b.span, "child_id(state, c) must be states[state].edges.get(&c); returns %s" % show(t), show(t))


def rule_num_bytes(ctx, R, NR):
    lib = ctx.lib
    impls = [b for b in lib.bodies.values() if b.j.get("impl_trait") == "nfa_builder::EdgeLabel" and b.name == "num_bytes"]
    byty = {b.j["impl_self_ty"]: b for b in impls}
    if "u8" not in byty or "char" not in byty:
        ctx.missing("CW-NB", "EdgeLabel::num_bytes impls for u8 and char (found %s)" % sorted(byty))
        return
    t8 = FnView(lib, byty["u8"]).root.ret()
    ctx.check(is_const(t8, 1), "CW-NB", byty["u8"], "u8-is-one-byte", byty["u8"].span, "u8::num_bytes must be 1; found %s" % show(t8))
    tc = FnView(lib, byty["char"]).root.ret()
    ctx.check(m(C(lambda k: k.endswith("len_utf8"), Par(1)), tc), "CW-NB", byty["char"], "char-is-len_utf8", byty["char"].span,
              "char::num_bytes must be self.len_utf8() (byte length, not 1 per char); found %s" % show(tc))
