"""Double-array builder rule groups (both variants): DA-EDGE, DA-BASE, B-EXT, B-FAIL, B-OPOS(set),
B-LEN, B-PAIR, B-BASE, B-MAP, B-MOVE, KNOB-SAN1/2/3, KNOB-CONF, KNOB-CW, NFA-DISPATCH, STAT-NS(builder),
VALID-NONEMPTY(builder), VALID-CONV, VALID-ENTRY, VAL-IDX."""
from . import core, cond, pat, coll
from .core import Callee, walk, show, mk_phi
from .view import FnView, pnorm, mk_payload, OPTION, RESULT
from .pat import m, ANY, V, K, Par, C, F, E, P, B, Phi, OneOf, members, It
from .search import opt_arms, bool_arms, switches_on, is_const, self_param
from .nfa import _vec_effects, VEC_PUSH, VEC_LEN

ITER_NEXT = "core::iter::Iterator::next"
HELPER = "build_helper::BuildHelper"


def anykey(k):
    return True


def endswith(sfx):
    return lambda k: k.endswith(sfx)


def stores(vw):
    """memory writes of a body view: [(bb, si, target_term, value_term)] for every assignment whose
    destination goes through a dereference (fields of &mut params, *index_mut(..), …)"""
    out = []
    for bi, si, st in vw.body.stmts():
        if st["k"] == "assign" and any(p["k"] == "deref" for p in st["lhs"]["proj"]):
            out.append((bi, si, vw.place(st["lhs"]), pnorm(vw.T.rvalue(st["rv"]))))
    return out


class Sites:
    def __init__(self, lib, body):
        self.fv = FnView(lib, body)
        self.body = body
        self.root = self.fv.root
        self.calls = []
        for vw, bi, c, tj in self.fv.calls():
            self.calls.append({"vw": vw, "bb": bi, "c": c, "key": c.key, "name": c.name,
                               "args": [vw.op(a) for a in tj["args"]], "tj": tj})
        self.stores = []
        for vw in self.fv.views:
            for bi, si, tgt, val in stores(vw):
                self.stores.append({"vw": vw, "bb": bi, "si": si, "tgt": tgt, "val": val})

    def named(self, name, adt=None):
        return [s for s in self.calls if s["name"] == name and (adt is None or s["c"].adt == adt)]

    def keyed(self, pred):
        return [s for s in self.calls if pred(s["key"])]


class BuilderRoles:
    """per variant: placement fn, find_base, verifier, extend, init, sanitiser, nfa-building fn"""

    def __init__(self, ctx, R, NR, rule="ROLES"):
        lib = ctx.lib
        self.v = {}
        for v in R.variants():
            if not v.ok:
                continue
            r = type("BR", (), {})()
            r.ok = True
            self.v[v.tag] = r
            own = [b for b in lib.find_bodies(adt=v.builder)]
            r.place = r.init = r.extend = r.find_base = r.verify = r.sanitise = r.nfa_fn = None
            for b in own:
                S = Sites(lib, b)
                if S.named("set_base", v.S):
                    r.place = b
                    r.placeS = S
                if S.named("vacant_iter", HELPER):
                    r.find_base = b
                if S.named("add", NR.N if NR.ok else None) and NR.ok:
                    r.nfa_fn = b
            # initialisation (first block, helper, ROOT/DEAD reservation) and extension (one more block) may be private functions of
            # their own (init_array / extend_array today) or be written inside the placement function (before the work loop /
            # inside it); both decompositions are accepted
            for b in own:
                if b is r.place:
                    continue
                S = Sites(lib, b)
                if S.named("new", HELPER):
                    r.init = b
                if S.named("push_block", HELPER) and not S.named("new", HELPER):
                    r.extend = b
            if r.init is None:
                r.init = r.place
            if r.extend is None:
                r.extend = r.place
            for b in own:
                S = Sites(lib, b)
                # the sanitiser stamps CHECK on slots nobody owns; a helper of the placement loop claims the slot (use_index) as well
                if S.named("set_check", v.S) and b is not r.place and not S.named("use_index", HELPER):
                    r.sanitise = b
            # (the candidate verifier is not a role: it is inlined into find_base by the normal form)
            for nm in ("place", "find_base", "nfa_fn"):
                if getattr(r, nm) is None:
                    ctx.missing(rule, "%s builder role `%s`" % (v.tag, nm))
                    r.ok = False
            if v.tag == "bw" and r.sanitise is None:
                ctx.missing(rule, "bw CHECK sanitiser (writer of check outside the placement loop)")
                r.ok = False


def _key_of(body):
    return body.key


# ----------------------------------------------------------------------------- placement

def rule_placement(ctx, R, NR, BR, rules=None):
    lib = ctx.lib

    def want(r):
        return rules is None or r in rules

    for v in R.variants():
        r = BR.v.get(v.tag)
        if r is None or not r.ok or not NR.ok:
            continue
        b = r.place
        S = Sites(lib, b)
        root = S.root
        tag = v.tag
        NS = NR.NS
        # --- work list: cur = payload(pop(stack))
        pops = S.keyed(lambda k: k == "alloc::vec::Vec::pop")
        if len(pops) != 1 or pops[0]["args"][0][0] != "var":
            ctx.bad("DA-EDGE", b, "worklist:" + tag, b.span, "the placement loop must take states from one work list (Vec::pop)")
            continue
        stack = pops[0]["args"][0]
        cur = P(C("alloc::vec::Vec::pop", stack))
        nstate = E(F(Par(2), "states"), cur)               # nfa.states[cur]
        # --- state id map
        bases = S.named("set_base", v.S)
        fbcalls = [s for s in S.calls if s["c"].body_path == r.find_base.path]
        if len(bases) != 1 or len(fbcalls) != 1:
            ctx.bad("B-BASE", b, "single-base-site:" + tag, b.span,
                    "one find_base call and one set_base site expected; found %d/%d" % (len(fbcalls), len(bases)))
            continue
        fb = fbcalls[0]
        fbsite = (b.path, fb["bb"])
        base = C(anykey, ANY, ANY, ANY, site=fbsite)
        env = {}
        idmap = V("idmap")
        # set_base(self.states[idmap[cur]], base)
        sb = bases[0]
        ok = m(E(F(Par(1), "states"), E(idmap, cur)), sb["args"][0], env) and m(base, sb["args"][1], env)
        if want("B-BASE"):
            ctx.check(ok, "B-BASE", b, "set_base-arg:" + tag, b.body_loc(sb["bb"]) if hasattr(b, "body_loc") else b.loc(sb["bb"]),
                      "set_base must store the result of find_base at the array index of the popped state "
                      "(states[state_id_map[state_id]]); found set_base(%s, %s)" % (show(sb["args"][0]), show(sb["args"][1])))
        if "idmap" not in env:
            continue
        idmap_t = env["idmap"]
        # --- the edge iteration
        if tag == "bw":
            pulls = [s for s in S.keyed(lambda k: core.callee_base(k) == ITER_NEXT)
                     if m(F(nstate, "edges", NS), s["args"][0])]
        else:
            pulls = [s for s in S.keyed(lambda k: core.callee_base(k) == ITER_NEXT) if s["args"][0][0] == "var"]
        if len(pulls) != 1:
            ctx.bad("DA-EDGE", b, "edge-loop:" + tag, b.span, "one loop over the edges of the popped state expected; found %d" % len(pulls))
            continue
        pull = pulls[0]
        psite = (b.path, pull["bb"])
        item = P(C(anykey, ANY, site=psite))
        lab = F(item, "0", "(tuple)")
        child = F(item, "1", "(tuple)")
        child_idx = B("BitXor", base, lab)
        if tag == "cw":
            # `mapped` must hold (mapper.get(label).unwrap(), child_id) for every edge of the popped state
            mapped = pull["args"][0]
            # every edge of the popped state, mapped: push in a loop, or extend(edges.iter().map(..))
            edges_it = OneOf(F(nstate, "edges", NS), C("alloc::collections::BTreeMap::iter", F(nstate, "edges", NS)))
            madds = coll.additions(S, lambda t: core.same(t, mapped), closures=True)
            okm = len(madds) == 1 and madds[0].unconditional() and \
                m(("tuple", (P(C(endswith("CodeMapper::get"), F(Par(1), "mapper"), F(It(edges_it), "0", "(tuple)"))),
                             F(It(edges_it), "1", "(tuple)"))), madds[0].val)
            if okm:
                clears = [s for s in S.keyed(lambda k: k == "alloc::vec::Vec::clear") if core.same(s["args"][0], mapped)]
                fill_bb = madds[0].pull if madds[0].kind == "push" and madds[0].pull is not None else madds[0].bb
                okm = len(clears) == 1 and b.dominates(clears[0]["bb"], fill_bb) and b.dominates(fill_bb, fb["bb"])
            if want("DA-EDGE"):
                ctx.check(okm, "DA-EDGE", b, "mapped-edges:" + tag, b.loc(pull["bb"]),
                          "the placed edge list must be cleared per state and hold (mapper.get(label), child) for every edge")
        else:
            # labels passed to find_base = all keys of the popped state's edges
            labels = fb["args"][1]
            okl = labels[0] == "var"
            if okl:
                ladds = coll.additions(S, lambda t: core.same(t, labels), closures=True)
                keys_ = C("alloc::collections::BTreeMap::keys", F(nstate, "edges", NS))
                okl = len(ladds) == 1 and m(It(OneOf(keys_, C("core::iter::Iterator::copied", keys_), C("core::iter::Iterator::cloned", keys_))),
                                            ladds[0].val) and ladds[0].unconditional()
                clears = [s for s in S.keyed(lambda k: k == "alloc::vec::Vec::clear") if core.same(s["args"][0], labels)]
                okl = okl and len(clears) == 1 and b.dominates(clears[0]["bb"], fb["bb"])
            if want("DA-BASE"):
                ctx.check(okl, "DA-BASE", b, "labels-complete:" + tag, b.loc(fb["bb"]),
                          "find_base must be given the complete key set of the popped state's edges (cleared, then every key pushed)")
        if tag == "cw" and want("DA-BASE"):
            ctx.check(core.same(fb["args"][1], pull["args"][0]), "DA-BASE", b, "labels-complete:" + tag, b.loc(fb["bb"]),
                      "find_base must be given the same edge list that is placed afterwards")
        # helper
        helper = fb["args"][2]
        # --- per edge effects
        env2 = {}
        # (the reservation of the constant ROOT/DEAD slots belongs to the initialisation duty, wherever it is written:
        #  KNOB-CW / DA-EDGE reserve-root-dead)
        ui = [s for s in S.named("use_index", HELPER) if s["args"][1][0] != "const"]
        ok_ui = len(ui) == 1 and core.same(ui[0]["args"][0], helper) and m(child_idx, ui[0]["args"][1], env2)
        sc = S.named("set_check", v.S)
        chk_val = lab if tag == "bw" else E(idmap, cur)
        ok_sc = len(sc) == 1 and m(E(F(Par(1), "states"), child_idx), sc[0]["args"][0], env2) and m(chk_val, sc[0]["args"][1], dict(env))
        st_map = [s for s in S.stores if m(E(idmap, child), s["tgt"], dict(env))]
        ok_map = len(st_map) == 1 and m(child_idx, st_map[0]["val"], env2)
        pushes = [s for s in S.keyed(lambda k: k == VEC_PUSH) if core.same(s["args"][0], stack)]
        # one push per child inside the edge loop; any other push is the seed: ROOT, once, before the loop (`vec![ROOT]` or
        # `Vec::with_capacity(..)` + `push(ROOT)`)
        seed_pushes = [s for s in pushes if is_const(s["args"][1], 0) and not b.in_cycle(s["bb"])]
        child_pushes = [s for s in pushes if s not in seed_pushes]
        ok_push = len(child_pushes) == 1 and m(child, child_pushes[0]["args"][1]) and len(seed_pushes) <= 1
        pushes = child_pushes or pushes
        if want("DA-EDGE"):
            ctx.check(ok_ui, "DA-EDGE", b, "use_index:" + tag, b.loc(ui[0]["bb"]) if ui else b.span,
                      "each edge must reserve slot base^label in the helper; found %s" % [show(a) for s in ui for a in s["args"][1:]])
            ctx.check(ok_sc, "DA-EDGE", b, "set_check:" + tag, b.loc(sc[0]["bb"]) if sc else b.span,
                      "CHECK of the child slot states[base^label] must be %s; found %s" % (
                          "the label" if tag == "bw" else "the parent's array index",
                          [(show(s["args"][0]), show(s["args"][1])) for s in sc]))
            ctx.check(ok_map, "DA-EDGE", b, "map-child:" + tag, b.loc(st_map[0]["bb"]) if st_map else b.span,
                      "state_id_map[child_id] must become base^label; stores: %s" % [(show(s["tgt"]), show(s["val"])) for s in S.stores][:6])
            ctx.check(ok_push, "DA-EDGE", b, "stack-child:" + tag, b.loc(pushes[0]["bb"]) if pushes else b.span,
                      "each child must be pushed on the work list")
            # all four effects on every path through the loop body
            sw = switches_on(root, lambda d: d[0] == "discr" and d[1][0] == "call" and d[1][3] == psite)
            if len(sw) == 1 and ok_ui and ok_sc and ok_map and ok_push:
                sbi, stj, _ = sw[0]
                some, none = opt_arms(stj)
                for nm, bb in (("use_index", ui[0]["bb"]), ("set_check", sc[0]["bb"]), ("map", st_map[0]["bb"]), ("push", pushes[0]["bb"])):
                    ctx.check(pull["bb"] not in (b.reach(some, avoid_blocks=[bb]) if some != bb else set()), "DA-EDGE", b,
                              "every-edge:%s:%s" % (nm, tag), b.loc(bb), "`%s` must happen for every edge (no path through the loop body may skip it)" % nm)
        # PERM-IDS: the work list is only pushed/popped (visiting order derives from label order, never re-sorted by
        # creation order); label/edge scratch lists are only cleared, pushed and (cw) sorted by code
        if want("DA-EDGE") or want("PERM-IDS"):
            def effects(var):
                out = []
                for s_ in S.calls:
                    if s_["args"] and core.same(s_["args"][0], var) and not s_["c"].local:
                        base_ = core.callee_base(s_["key"])
                        if base_ in core.IDENTITY_KEYS or base_ in core.ADVANCE_KEYS or base_ in core.NEUTRAL_VEC or base_ in (
                                "alloc::vec::Vec::len", "alloc::vec::Vec::is_empty", "core::slice::iter", "core::ops::Index::index", "core::slice::len"):
                            continue
                        out.append(base_.split("::")[-1])
                return sorted(set(out))
            eff = effects(stack)
            ctx.check(set(eff) <= {"push", "pop"}, "PERM-IDS", b, "worklist-only-push-pop:" + tag, b.span,
                      "the work list may only be pushed and popped (the traversal order must come from the label-ordered edge map); found %s" % eff)
            scratch = fb["args"][1]
            if scratch[0] == "var":
                eff = effects(scratch)
                allowed_s = {"push", "clear", "extend"} | ({"sort_by", "sort_unstable_by", "sort_by_key", "sort_unstable_by_key", "sort", "sort_unstable"} if tag == "cw" else set())
                ctx.check(set(eff) <= allowed_s, "PERM-IDS", b, "scratch-list-effects:" + tag, b.span,
                          "the per-state label list may only be cleared, filled%s; found %s" % (" and sorted" if tag == "cw" else "", eff))
        # other state_id_map stores: only ROOT := ROOT_IDX
        if want("B-FAIL"):
            for s in S.stores:
                if s["tgt"][0] == "elem" and core.same(s["tgt"][1], idmap_t) and s not in st_map:
                    ctx.check(is_const(s["tgt"][2], 0) and is_const(s["val"], 0), "B-FAIL", b, "map-root:" + tag, b.loc(s["bb"], s["si"]),
                              "besides children, only state_id_map[ROOT] = ROOT_IDX may be stored; found %s := %s" % (show(s["tgt"]), show(s["val"])))
            # creation: vec![DEAD_IDX; nfa.states.len()]
            cdefs = [pnorm(t) for k, t, bb in root.T.container_defs(idmap_t[2]) if k in ("call", "rv")]
            okc = any(m(C("alloc::vec::from_elem", K(1), C(VEC_LEN, F(Par(2), "states"))), t) for t in cdefs)
            ctx.check(okc, "B-FAIL", b, "map-default-dead:" + tag, b.span,
                      "state_id_map must start as DEAD_IDX for every NFA state; defs %s" % [show(t) for t in cdefs])
        # bw: use_base(base)
        if tag == "bw" and want("DA-BASE"):
            ub = S.named("use_base", HELPER)
            ctx.check(len(ub) == 1 and m(base, ub[0]["args"][1]) and core.same(ub[0]["args"][0], helper), "DA-BASE", b, "use_base:" + tag,
                      b.loc(ub[0]["bb"]) if ub else b.span, "bw: the base stored must also be marked used in the helper")
            if len(ub) == 1:
                ctx.check(pops[0]["bb"] not in b.reach(fb["bb"], avoid_blocks=[ub[0]["bb"]]) - {fb["bb"]} or fb["bb"] == ub[0]["bb"], "DA-BASE", b,
                          "use_base-every-placed-state:" + tag, b.loc(ub[0]["bb"]),
                          "every base handed out by find_base must be marked used (on every path, incl. the array-extension path), "
                          "otherwise a later state can be given the same base")
        if want("B-BASE") or want("DA-BASE"):
            ctx.check(pops[0]["bb"] not in b.reach(fb["bb"], avoid_blocks=[sb["bb"]]) - {fb["bb"]}, "B-BASE", b, "set_base-every-placed-state:" + tag,
                      b.loc(sb["bb"]), "every state whose children were placed must get its base stored (on every path)")
        # --- B-EXT: extension guard
        if want("B-EXT"):
            if r.extend is b:
                ext = [s for s in S.named("push_block", HELPER) if s["vw"] is root and b.in_cycle(s["bb"])]
            else:
                ext = [s for s in S.calls if s["c"].body_path == r.extend.path]
            slen = C(VEC_LEN, F(Par(1), "states"))
            gsw = switches_on(root, lambda d: d[0] == "bin" and d[1] in ("Ge", "Le", "Lt", "Gt") and
                              ((m(base, d[2]) and m(slen, d[3])) or (m(slen, d[2]) and m(base, d[3]))))
            okx = len(ext) == 1 and len(gsw) == 1
            if okx:
                gbi, gtj, d = gsw[0]
                tt, ff = bool_arms(gtj)
                base_left = m(base, d[2])
                op = d[1]
                # normalise to "base >= len" truth arm
                if (op == "Ge" and base_left) or (op == "Le" and not base_left):
                    ext_arm = tt
                elif (op == "Lt" and base_left) or (op == "Gt" and not base_left):
                    ext_arm = ff
                else:
                    ext_arm = None
                after = ui + sc + (S.named("use_base", HELPER) if tag == "bw" else [])
                okx = ext_arm is not None and b.edge_guards((gbi, ext_arm), ext[0]["bb"]) and \
                    all(b.dominates(gbi, x["bb"]) for x in after) and \
                    all(x["bb"] not in b.reach(ext_arm, avoid_blocks=[ext[0]["bb"]]) for x in after)
            if not okx and len(ext) == 1:
                # any number of comparisons between the base and the length (e.g. a debug_assert!(base <= len) next to the guard):
                # decided under the proposition `len <= base` — true: the extension is passed before any write; false: no extension
                is_ge = lambda t: cond.le_terms(t, lambda x: m(slen, x), lambda y: m(base, y))
                after = ui + sc + (S.named("use_base", HELPER) if tag == "bw" else [])
                v_t = cond.explore(root, [fb["bb"]], cond.prop_atoms(is_ge, True), stop=[ext[0]["bb"]])
                v_f = cond.explore(root, [fb["bb"]], cond.prop_atoms(is_ge, False), stop=[pops[0]["bb"]])
                okx = bool(after) and v_t is not None and v_f is not None and ext[0]["bb"] in v_t and \
                    not any(x["bb"] in v_t for x in after) and ext[0]["bb"] not in v_f and \
                    bool(switches_on(root, lambda d: is_ge(d) is not None))
            ctx.check(okx, "B-EXT", b, "extend-before-write:" + tag, b.span,
                      "when base >= states.len() the array must be extended before any slot base^label is written or the base is "
                      "recorded in the helper (the helper only tracks the active window)")
        # --- second pass: fail and output_pos
        if want("B-FAIL") or want("B-OPOS"):
            _second_pass(ctx, v, NR, b, S, idmap_t, tag, want)
        # --- KNOB-SAN2 (bw): final sanitising over the whole active range before Ok
        if tag == "bw" and want("KNOB-SAN"):
            # (when the extension duty is written inside this function there is a second, per-extension call of the sanitiser:
            #  KNOB-SAN1; the final pass is the one fed from active_block_range())
            sans = [s for s in S.calls if s["c"].body_path == r.sanitise.path and
                    (r.extend is not b or m(It(C(endswith("::active_block_range"), ANY)), s["args"][1]))]
            oks = len(sans) == 1 and m(It(C(endswith("::active_block_range"), ANY)), sans[0]["args"][1]) and \
                core.same(sans[0]["args"][2], helper)
            ctx.check(oks, "KNOB-SAN2", b, "final-sanitise:" + tag, b.loc(sans[0]["bb"]) if sans else b.span,
                      "before returning, every block of helper.active_block_range() must be sanitised")
            if oks:
                rp_ = [s_ for s_ in S.keyed(lambda k: core.callee_base(k) == ITER_NEXT) if m(C(endswith("::active_block_range"), ANY), s_["args"][0])]
                if len(rp_) == 1:
                    sw_ = switches_on(root, lambda d: d[0] == "discr" and d[1][0] == "call" and d[1][3] == (b.path, rp_[0]["bb"]))
                    if len(sw_) == 1:
                        some_ = opt_arms(sw_[0][1])[0]
                        ctx.check(rp_[0]["bb"] not in (b.reach(some_, avoid_blocks=[sans[0]["bb"]]) - {some_} if some_ != sans[0]["bb"] else set()), "KNOB-SAN2", b,
                                  "every-active-block-sanitised:" + tag, b.loc(sans[0]["bb"]), "EVERY active block is sanitised at the end (no block skipped)")
                # every Ok exit is behind the sanitising loop's exhaustion
                okx = [(bi, si) for bi, si, st in b.stmts() if st["k"] == "assign" and st["lhs"]["local"] == 0 and
                       st["rv"]["k"] == "aggregate" and st["rv"].get("variant") == "Ok"]
                rpull = [s for s in S.keyed(lambda k: core.callee_base(k) == ITER_NEXT) if m(C(endswith("::active_block_range"), ANY), s["args"][0])]
                good = len(rpull) == 1
                if good:
                    sw = switches_on(root, lambda d: d[0] == "discr" and d[1][0] == "call" and d[1][3] == (b.path, rpull[0]["bb"]))
                    good = len(sw) == 1 and all(b.edge_guards((sw[0][0], opt_arms(sw[0][1])[1]), bi) for bi, si in okx) and bool(okx)
                ctx.check(good, "KNOB-SAN2", b, "ok-after-sanitise:" + tag, b.span, "Ok is returned only after the sanitising loop has finished")
                # and after both passes' writes: the sanitiser loop is dominated by the second pass's loop exit
        # --- B-LEN effects
        if want("B-LEN"):
            pass


def _second_pass(ctx, v, NR, b, S, idmap_t, tag, want):
    """fail / output_pos transfer.  Form-independent: the loop may skip DEAD with `continue` or with `.filter(..)`; set_fail may
    be two guarded calls or one call on a conditional value.  Decided by evaluating the loop body under assumptions on the two
    atomic conditions (i == DEAD_ID) and (nfa.states[i].fail == DEAD_ID)."""
    lib = ctx.lib
    NS = NR.NS
    root = S.root
    # the pass walks nfa.states with the state's index: `.iter().enumerate()`, or in lock step with state_id_map (`zip`), whose
    # i-th item is state_id_map[i] (the map has one entry per NFA state: clause map-default-dead)
    sts = C("core::slice::iter", F(Par(2), "states"))
    ids = OneOf(lambda t, e: core.same(t, idmap_t), C("core::slice::iter", lambda t, e: core.same(t, idmap_t)))
    ENUM, ZIP = "core::iter::Iterator::enumerate", "core::iter::Iterator::zip"
    forms = [(C(ENUM, sts), ("1",), None), (C(ENUM, C(ZIP, sts, ids)), ("1", "0"), ("1", "1")), (C(ENUM, C(ZIP, ids, sts)), ("1", "1"), ("1", "0"))]
    pulls, form = [], None
    for fsrc, fst, fown in forms:
        pulls = [s for s in S.keyed(lambda k: core.callee_base(k) == ITER_NEXT) if s["vw"] is root and m(fsrc, pat.iter_origin(s["args"][0]))]
        if pulls:
            form = (fsrc, fst, fown)
            break
    if len(pulls) != 1:
        ctx.bad("B-FAIL", b, "second-pass:" + tag, b.span, "one pass over nfa.states.iter().enumerate() expected (fail/output_pos transfer)")
        return
    src, fst, fown = form
    psite = (b.path, pulls[0]["bb"])
    pull = pulls[0]["bb"]
    item = It(src)

    def proj(t, path):
        for f in path:
            t = F(t, f, "(tuple)")
        return t
    i = F(item, "0", "(tuple)")
    st = proj(item, fst)
    own = E(lambda t, e: core.same(t, idmap_t), i)
    if fown:
        own = OneOf(own, proj(item, fown))
    target = E(F(Par(1), "states"), own)
    sf = S.named("set_fail", v.S)
    so = S.named("set_output_pos", v.S)
    psw = switches_on(root, lambda d: d[0] == "discr" and d[1][0] == "call" and d[1][3] == psite)
    if len(psw) != 1:
        ctx.bad("B-FAIL", b, "second-pass:" + tag, b.span, "the transfer loop's pull must be tested once")
        return
    head = opt_arms(psw[0][1])[0]

    def eq1(x):
        return lambda t: t[0] == "bin" and t[1] == "Eq" and ((m(x, t[2]) and is_const(t[3], 1)) or (m(x, t[3]) and is_const(t[2], 1)))
    dead_state = eq1(i)
    dead_fail = eq1(F(st, "fail", NS))
    # filters in the iterator expression (`.filter(|&(i, _)| i != dead)`): the item is processed iff they hold
    filt = []
    a = pat.iter_origin(pulls[0]["args"][0], peel_filter=False)
    for _ in range(4):
        if a[0] == "call" and isinstance(a[1], str) and core.callee_base(a[1]) == "core::iter::Iterator::filter" and a[2][1][0] == "closure":
            cr = S.fv.closure_ret(a[2][1][1])
            filt.append(pnorm(cr) if cr is not None else ("unknown", "filter"))
            a = pat.iter_origin(a[2][0], peel_filter=False)
        else:
            break

    def filtered_out(atoms):
        return any(cond.Explorer(root, atoms).eval_term(coll._unfilter(f)) is False for f in filt)

    def passes(atoms):
        return all(cond.Explorer(root, atoms).eval_term(coll._unfilter(f)) is True for f in filt)
    errs = [x["bb"] for x in _err_exits(b)]
    if want("B-FAIL"):
        ctx.check(len(sf) >= 1, "B-FAIL", b, "set_fail-sites:" + tag, b.span, "the transfer loop must call set_fail; found %d sites" % len(sf))
        okt = all(m(target, s["args"][0]) for s in sf)
        # value under fail == DEAD_ID: DEAD_IDX; otherwise state_id_map[fail]
        mapped = E(lambda t, e: core.same(t, idmap_t), F(st, "fail", NS))
        okd = okm = bool(sf)
        seen_dead = seen_map = False
        vals_shown = []
        for s in sf:
            vd = cond.values_under(root, [head], [(dead_state, False), (dead_fail, True)], s["tj"]["args"][1], s["bb"])
            vm = cond.values_under(root, [head], [(dead_state, False), (dead_fail, False)], s["tj"]["args"][1], s["bb"])
            rd = cond.explore(root, [head], [(dead_state, False), (dead_fail, True)], stop=[pull])
            rm = cond.explore(root, [head], [(dead_state, False), (dead_fail, False)], stop=[pull])
            vals_shown.append((sorted(show(x) for x in vd), sorted(show(x) for x in vm)))
            if rd is not None and s["bb"] in rd:
                seen_dead = True
                okd = okd and all(is_const(x, 1) for x in vd) and bool(vd)
            if rm is not None and s["bb"] in rm:
                seen_map = True
                okm = okm and all(m(mapped, x) for x in vm) and bool(vm)
        ctx.check(okt and okd and seen_dead, "B-FAIL", b, "set_fail-dead:" + tag, b.span,
                  "DEAD_IDX is stored exactly when the NFA state's fail link is DEAD_ID; values (dead case, other case) %s" % vals_shown)
        ctx.check(okt and okm and seen_map, "B-FAIL", b, "set_fail-mapped:" + tag, b.span,
                  "fail of states[state_id_map[i]] must be state_id_map[nfa.states[i].fail]; values (dead case, other case) %s" % vals_shown,
                  str(vals_shown))
        ctx.check(seen_dead and seen_map, "B-FAIL", b, "set_fail-both:" + tag, b.span, "both the DEAD and the mapped fail transfer must exist")
    if want("B-OPOS"):
        ok = len(so) == 1 and m(target, so[0]["args"][0]) and m(F(st, "output_pos", NS), so[0]["args"][1])
        ctx.check(ok, "B-OPOS", b, "set_output_pos:" + tag, b.loc(so[0]["bb"]) if so else b.span,
                  "output_pos of states[state_id_map[i]] must be nfa.states[i].output_pos; found %s"
                  % [(show(s["args"][0]), show(s["args"][1])) for s in so])
    # the DEAD state (i == DEAD_ID) is the only one skipped
    if want("B-FAIL"):
        ok = bool(sf) and bool(so)
        if ok:
            sfb = {s["bb"] for s in sf}
            sob = {so[0]["bb"]}
            live = [(dead_state, False)]
            # every live state: the filter passes and on every path through the body (error exits aside) set_output_pos and a
            # set_fail are reached before the next pull
            v1 = cond.explore(root, [head], live, stop=sfb | set(errs))
            v2 = cond.explore(root, [head], live, stop=sob)
            ok = passes(live) and v1 is not None and v2 is not None and pull not in v1 and pull not in v2 and bool(v1 & sfb) and bool(v2 & sob)
            # the DEAD state itself is skipped (its slot is reserved, its NFA record is a placeholder)
            vd = cond.explore(root, [head], [(dead_state, True)], stop=[pull])
            ok = ok and (filtered_out([(dead_state, True)]) or (vd is not None and not (vd & (sfb | sob))))
        ctx.check(ok, "B-FAIL", b, "every-state-transferred:" + tag, b.span,
                  "every NFA state except DEAD must get its fail link and output position transferred")


def _err_exits(b):
    out = []
    for bi, si, st in b.stmts():
        if st["k"] == "assign" and st["lhs"]["local"] == 0 and st["rv"]["k"] == "aggregate" and st["rv"].get("variant") == "Err":
            out.append({"bb": bi})
    return out


# ----------------------------------------------------------------------------- find_base / verify

def rule_find_base(ctx, R, NR, BR):
    """B-BASE / DA-BASE on the NORMAL FORM of find_base: the private verifier (check_valid_base / verify_base, whatever it is
    called, or none at all) is inlined, so the rule sees one function that walks the vacant list, tests every label's slot for
    each candidate and returns the first candidate that passes, else the fallback.  Accepted source forms: verifier as a separate
    function or written in place (labelled `continue`), candidate loop as `for` or `find_map`, label test as a loop or an
    `any`/`all` quantifier; the decisions are evaluated with cond.explore under assumptions on the used-slot / used-base tests."""
    lib = ctx.lib
    for v in R.variants():
        r = BR.v.get(v.tag)
        if r is None or not r.ok:
            continue
        tag = v.tag
        b = r.find_base
        S = Sites(lib, b)
        ret = pnorm(S.fv.resolve(S.root.ret()))
        vac = It(C(endswith("::vacant_iter"), Par(3)))
        first = E(Par(2), K(0)) if tag == "bw" else F(E(Par(2), K(0)), "0", "(tuple)")
        cand = B("BitXor", vac, first)
        slen = C(VEC_LEN, F(Par(1), "states"))
        fallback = slen if tag == "bw" else B("BitXor", slen, first)
        ok = m(Phi(cand, fallback, req=[0, 1]), ret)
        ctx.check(ok, "B-BASE", b, "find_base-returns:" + tag, b.span,
                  "find_base may return only a verified candidate (vacant index ^ first label) or the fallback %s; returns %s"
                  % ("states.len()" if tag == "bw" else "states.len() ^ first code", show(ret)), show(ret))
        uis = S.named("is_used_index", HELPER)
        if len(uis) != 1:
            ctx.bad("DA-BASE", b, "slot-test:" + tag, b.span, "one is_used_index test per (candidate, label) expected; found %d" % len(uis))
            continue
        ui = uis[0]
        hv = ui["vw"]
        # quantifier form: the slot test sits in the closure of labels.iter().any(..) / .all(..)
        quants = [s for s in S.calls if core.callee_base(s["key"]) in ("core::iter::Iterator::any", "core::iter::Iterator::all") and
                  len(s["args"]) == 2 and s["args"][1][0] == "closure" and s["args"][1][1] == hv.body.path]
        dv = quants[0]["vw"] if quants else hv
        db = dv.body
        usite = (hv.body.path, ui["bb"])

        def used(t):
            return t[0] == "call" and t[3] == usite
        accepts = [s for s in S.keyed(lambda k: core.callee_base(k) in ("core::num::NonZero::new", "core::num::NonZero::new_unchecked"))
                   if m(cand, s["args"][0])]
        ctx.check(bool(accepts) and all(s["vw"] is dv for s in accepts), "B-BASE", b, "candidate-verified:" + tag, b.span,
                  "every candidate base must go through the slot tests before it is returned")
        if not accepts or not all(s["vw"] is dv for s in accepts):
            continue
        accb = {s["bb"] for s in accepts}
        # where one candidate's examination ends (dv == root: the next pull from the vacant list; in a find_map closure: its end)
        outer = [s["bb"] for s in S.calls if s["vw"] is dv and core.callee_base(s["key"]) == ITER_NEXT and
                 m(C(endswith("::vacant_iter"), Par(3)), pat.iter_origin(s["args"][0]))]
        if quants:
            q = quants[0]
            recv = q["args"][0]
            okp = m(Par(2), pat.strip_iter(pat.iter_origin(recv)))
            item = ("item", recv)
            item_p = lambda t, e: core.same(t, item)
        else:
            pulls = [s for s in S.calls if s["vw"] is dv and core.callee_base(s["key"]) == ITER_NEXT and
                     m(Par(2), pat.strip_iter(pat.iter_origin(s["args"][0]))) and db.dominates(s["bb"], ui["bb"])]
            okp = len(pulls) == 1 and db.in_cycle(pulls[0]["bb"])
            if okp:
                psite = (db.path, pulls[0]["bb"])
                item_p = P(C(anykey, ANY, site=psite))
        ctx.check(okp, "DA-BASE", b, "tests-every-label:" + tag, b.span,
                  "the verifier must iterate over the whole label slice it is given (no sub-slice, no early stop)")
        if not okp:
            continue
        lab = item_p if tag == "bw" else F(item_p, "0", "(tuple)")
        oku = m(Par(3), ui["args"][0]) and m(B("BitXor", cand, lab), ui["args"][1])
        ctx.check(oku, "DA-BASE", b, "slot-test:" + tag, hv.body.loc(ui["bb"]),
                  "for every label the slot base^label must be tested with is_used_index; found %s" % [show(a) for a in ui["args"][1:]])
        if not oku:
            continue
        if quants:
            cr = S.fv.closure_ret(hv.body.path)
            is_any = core.callee_base(q["key"]).endswith("::any")
            x_used = cond.Explorer(hv, [(used, True)]).eval_term(pnorm(cr)) if cr is not None else None
            x_free = cond.Explorer(hv, [(used, False)]).eval_term(pnorm(cr)) if cr is not None else None
            okq = (x_used is True and x_free is False) if is_any else (x_used is False and x_free is True)
            qsite = (db.path, q["bb"])
            qres = lambda t: t[0] == "call" and t[3] == qsite
            v_conf = cond.explore(dv, [q["bb"]], [(qres, is_any)], stop=outer)
            v_free = cond.explore(dv, [q["bb"]], [(qres, not is_any)], stop=outer)
            okg = okq and v_conf is not None and v_free is not None and not (v_conf & accb) and bool(v_free & accb)
        else:
            pull = pulls[0]["bb"]
            psw = switches_on(dv, lambda d: d[0] == "discr" and d[1][0] == "call" and d[1][3] == psite)
            okg = len(psw) == 1
            if okg:
                some_a, none_a = opt_arms(psw[0][1])
                v_used = cond.explore(dv, [some_a], [(used, True)], stop=outer + [pull])
                v_free = cond.explore(dv, [some_a], [(used, False)], stop=outer + [pull])
                # a used slot: the candidate is dropped (no accept, the label loop is not resumed for it);
                # a free slot: the next label is examined; acceptance only once the labels ran out
                okg = v_used is not None and v_free is not None and not (v_used & accb) and pull not in v_used and \
                    pull in v_free and not (v_free & accb) and not (v_free & set(db.return_blocks())) and \
                    all(db.dominates(pull, ab) for ab in accb)
                # (acceptance lies behind the label pull, and — by the two explorations — is not reached from its Some arm before the
                # next pull: so only through the None arm, "the labels ran out"; stated this way the verdict may also travel in a
                # bool returned by an inlined predicate and be tested after the join)
                if okg:
                    # ... and it IS accepted then (unless another test, e.g. the used-base test, rejects it)
                    v_end = cond.explore(dv, [none_a], [], stop=outer)
                    okg = v_end is not None and bool(v_end & accb)
        ctx.check(okg, "DA-BASE", b, "used-slot-rejects:" + tag, b.span,
                  "a used slot must reject the base; the base is accepted only after every label was tested")
        if tag == "bw":
            ubs = [s for s in S.named("is_used_base", HELPER) if s["vw"] is dv]
            oku = len(ubs) == 1 and m(Par(3), ubs[0]["args"][0]) and m(cand, ubs[0]["args"][1])
            if oku:
                bsite = (db.path, ubs[0]["bb"])
                vb_ = cond.explore(dv, [ubs[0]["bb"]], [(lambda t: t[0] == "call" and t[3] == bsite, True)], stop=outer)
                oku = vb_ is not None and not (vb_ & accb)
                # every acceptance is behind the test
                oku = oku and all(db.dominates(ubs[0]["bb"], ab) for ab in accb)
            ctx.check(oku, "DA-BASE", b, "used-base-rejected:" + tag, b.span,
                      "bw: a base that is already in use must be rejected (CHECK stores only the label, so bases must be unique)")


# ----------------------------------------------------------------------------- init / extend / B-LEN / B-PAIR / KNOB

def rule_array_growth(ctx, R, NR, BR):
    lib = ctx.lib
    for v in R.variants():
        r = BR.v.get(v.tag)
        if r is None or not r.ok:
            continue
        tag = v.tag
        # block length term
        if tag == "bw":
            blk = lambda t, e: t[0] == "const" and t[1] == 256
            blk_desc = "256"
            c = lib.consts.get("bytewise::builder::BLOCK_LEN")
            ctx.check(c is not None and c["val"] == 256, "B-LEN", "bytewise::builder", "block-len-const", "",
                      "BLOCK_LEN must be 256 (= the u8 label range, a power of two)")
        else:
            blk = F(Par(1), "block_len")
            blk_desc = "self.block_len"
        if tag == "bw":
            dc = lib.consts.get("bytewise::DEAD_STATE_IDX")
            rc = lib.consts.get("bytewise::ROOT_STATE_IDX")
            ctx.check(dc is not None and rc is not None and dc["val"] == 1 and rc["val"] == 0, "DA-EDGE", "bytewise", "root-dead-consts", "",
                      "ROOT_STATE_IDX = 0 and DEAD_STATE_IDX = 1")
        # ---- init
        ib = r.init
        S = Sites(lib, ib)
        if tag == "cw":
            # the block length may be used through the field or through the local it was just computed in (same value)
            ws0 = [s_ for s_ in S.stores if m(F(Par(1), "block_len"), s_["tgt"])]
            if len(ws0) == 1:
                blv = ws0[0]["val"]
                blk = OneOf(F(Par(1), "block_len"), lambda t, e: core.same(t, blv))
        rs = [x for x in S.keyed(lambda k: k == "alloc::vec::Vec::resize") if not (ib is r.place and ib.in_cycle(x["bb"]))]
        ok = len(rs) == 1 and m(F(Par(1), "states"), rs[0]["args"][0]) and m(blk, rs[0]["args"][1]) and \
            m(C(endswith("Default::default@" + v.S)), rs[0]["args"][2])
        ctx.check(ok, "B-LEN", ib, "initial-block:" + tag, ib.loc(rs[0]["bb"]) if rs else ib.span,
                  "the array must start as exactly one block of default states: states.resize(%s, State::default())" % blk_desc)
        nh = S.named("new", HELPER)
        okh = len(nh) == 1 and m(blk, nh[0]["args"][0]) and m(F(Par(1), "num_free_blocks"), nh[0]["args"][1])
        ctx.check(okh, "KNOB-CONF", ib, "helper-config:" + tag, ib.loc(nh[0]["bb"]) if nh else ib.span,
                  "the helper must be created with (block length, self.num_free_blocks)")
        pb = [x for x in S.named("push_block", HELPER) if not (ib is r.place and ib.in_cycle(x["bb"]))]
        ui = S.named("use_index", HELPER)
        okp = len(pb) == 1 and len(rs) == 1
        init_pb = pb
        ctx.check(okp, "B-PAIR", ib, "init-pair:" + tag, ib.span, "one resize and one push_block in init (array and helper grow together)")
        uic = [a for a in ui if a["args"][1][0] == "const"]
        okr = sorted(a["args"][1][1] for a in uic) == [0, 1] and (len(ui) == 2 or ib is r.place)
        if okr and ib is r.place:
            # initialisation written inside the placement function: it must precede the work loop
            pops_ = S.keyed(lambda k: k == "alloc::vec::Vec::pop")
            okr = bool(pops_) and all(ib.dominates(a["bb"], p_["bb"]) for a in uic for p_ in pops_) and \
                all(ib.dominates(x["bb"], p_["bb"]) for x in pb + rs + nh for p_ in pops_)
        ctx.check(okr, "KNOB-CW" if tag == "cw" else "DA-EDGE", ib, "reserve-root-dead:" + tag, ib.span,
                  "ROOT_IDX and DEAD_IDX must be reserved in the helper before any placement")
        if tag == "cw":
            # KNOB-CW: a vacant slot must never validate as somebody's child: CHECK of a default state names the DEAD index,
            # which is reserved (never the index of a placed state), so the char-wise array needs no sanitising pass
            dbs = [x for x in lib.bodies.values() if x.j.get("impl_adt") == v.S and x.j.get("impl_trait") == "core::default::Default" and x.name == "default"]
            okd = len(dbs) == 1
            if okd:
                t = pnorm(FnView(lib, dbs[0]).root.ret())
                okd = t[0] == "agg" and is_const(dict(t[3]).get("check", ("undef",)), 1) and dict(t[3]).get("base", ("x",))[0] == "agg" and dict(t[3])["base"][2] == "None" \
                    and dict(t[3]).get("output_pos", ("x",))[0] == "agg" and dict(t[3])["output_pos"][2] == "None"
            ctx.check(okd, "KNOB-CW", v.S, "vacant-check-is-dead", lib.adts[v.S]["span"],
                      "a default (vacant) char-wise state must have CHECK = DEAD_STATE_IDX, no base and no output, so that no label can lead into it")
            dc = lib.consts.get("charwise::DEAD_STATE_IDX")
            rc = lib.consts.get("charwise::ROOT_STATE_IDX")
            ctx.check(dc is not None and rc is not None and dc["val"] == 1 and rc["val"] == 0, "KNOB-CW", "charwise", "root-dead-consts", "",
                      "ROOT_STATE_IDX = 0 and DEAD_STATE_IDX = 1 (both inside the first block, both reserved)")
            # block length: max(next_power_of_two(alphabet_size), c>=2), assigned before use
            ws = [s for s in S.stores if m(F(Par(1), "block_len"), s["tgt"])]
            mx = C(lambda k: core.callee_base(k) in ("core::cmp::Ord::max", "core::cmp::max"),
                   C(endswith("next_power_of_two"), C(endswith("CodeMapper::alphabet_size"), F(Par(1), "mapper"))),
                   lambda t, e: t[0] == "const" and isinstance(t[1], int) and t[1] >= 2)
            okb = len(ws) == 1 and m(mx, ws[0]["val"])
            ctx.check(okb, "B-LEN", ib, "block-len-pow2:" + tag, ib.loc(ws[0]["bb"], ws[0]["si"]) if ws else ib.span,
                      "cw block length must be alphabet_size.next_power_of_two().max(c), c >= 2; found %s" % [show(s["val"]) for s in ws])
            if okb and rs and nh:
                ctx.check(ib.dominates(ws[0]["bb"], rs[0]["bb"]) and ib.dominates(ws[0]["bb"], nh[0]["bb"]), "B-LEN", ib,
                          "block-len-before-use:" + tag, ib.span, "block_len must be computed before the first block is allocated")
            # block_len written nowhere else (except the constructor literal)
            for wb, bi, kind, payload in lib.field_writes().get((v.builder, "block_len"), []):
                if kind == "assign":
                    ctx.check(wb is ib, "B-LEN", wb, "block-len-writer:" + tag, wb.loc(bi), "block_len is assigned only in init_array")
        # ---- extend
        eb = r.extend
        S = Sites(lib, eb)
        in_place = eb is r.place
        rs = [x for x in S.keyed(lambda k: k == "alloc::vec::Vec::resize") if not in_place or eb.in_cycle(x["bb"])]
        slen = C(VEC_LEN, F(Par(1), "states"))
        ok = len(rs) == 1 and m(F(Par(1), "states"), rs[0]["args"][0]) and m(B("Add", slen, blk), rs[0]["args"][1])
        ctx.check(ok, "B-LEN", eb, "grow-by-one-block:" + tag, eb.loc(rs[0]["bb"]) if rs else eb.span,
                  "the array grows by exactly one block: states.resize(states.len() + %s, ..); found %s" % (blk_desc, [show(s["args"][1]) for s in rs]))
        pb = [x for x in S.named("push_block", HELPER) if not in_place or eb.in_cycle(x["bb"])]
        okp = len(pb) == 1 and len(rs) == 1 and (pb[0]["args"][0][0] == "var" if in_place else m(Par(2), pb[0]["args"][0]))
        if okp:
            # push_block's error is propagated and resize happens iff push_block succeeded
            sw = switches_on(S.root, lambda d: d[0] == "discr" and d[1][0] == "call" and core.callee_base(d[1][1]) == "core::ops::Try::branch"
                             and d[1][2][0][0] == "call" and d[1][2][0][3] == (eb.path, pb[0]["bb"]))
            okp = len(sw) == 1
            if okp:
                cont = [tb for val, tb in sw[0][1]["targets"] if val == 0]
                okp = bool(cont) and eb.edge_guards((sw[0][0], cont[0]), rs[0]["bb"]) and \
                    not any(rb not in eb.reach(cont[0], avoid_blocks=[]) for rb in [rs[0]["bb"]]) and \
                    all(x not in eb.reach(cont[0], avoid_blocks=[rs[0]["bb"]]) for x in eb.return_blocks())
        ctx.check(okp, "B-PAIR", eb, "extend-pair:" + tag, eb.span,
                  "push_block (error propagated) and states.resize(+block) must succeed together, so helper.num_elements() == states.len()")
        if tag == "bw":
            # KNOB-SAN1: if a block is about to leave the window it is sanitised before push_block
            sans = [s for s in S.calls if s["c"].body_path == r.sanitise.path and
                    (not in_place or m(P(C(endswith("::dropped_block"), ANY)), s["args"][1]))]
            hv_ = pb[0]["args"][0] if pb else ("undef",)
            same_h = lambda t, e: core.same(t, hv_)
            oks = len(sans) == 1 and m(P(C(endswith("::dropped_block"), same_h)), sans[0]["args"][1]) and m(same_h, sans[0]["args"][2])
            if oks and pb:
                db = [x for x in S.named("dropped_block", HELPER) if not in_place or eb.in_cycle(x["bb"])]
                sw = switches_on(S.root, lambda d: d[0] == "discr" and d[1][0] == "call" and d[1][3] == (eb.path, db[0]["bb"]))
                oks = len(sw) == 1 and eb.edge_guards((sw[0][0], opt_arms(sw[0][1])[0]), sans[0]["bb"]) and \
                    pb[0]["bb"] not in eb.reach(opt_arms(sw[0][1])[0], avoid_blocks=[sans[0]["bb"]]) and \
                    eb.dominates(sw[0][0], pb[0]["bb"])
            ctx.check(oks, "KNOB-SAN1", eb, "sanitise-before-drop:" + tag, eb.span,
                      "the block reported by helper.dropped_block() must be sanitised before push_block evicts it")
        # ---- effect whitelist on builder.states
        allowed = {"alloc::vec::Vec::resize": [r.init.key, r.extend.key], "core::ops::IndexMut::index_mut": None,
                   "alloc::vec::Vec::shrink_to_fit": None}
        _vec_effects(ctx, lib, v.builder, "states", allowed, "B-LEN")
        # direct assignments to builder.states (other than the constructor literal with an empty vec)
        for wb, bi, kind, payload in lib.field_writes().get((v.builder, "states"), []):
            if kind == "assign":
                ctx.bad("B-LEN", wb, "states-reassigned:" + tag, wb.loc(bi), "builder.states must not be replaced wholesale")
            elif kind == "mutborrow":
                pass   # borrows flowing into calls are covered by the effect whitelist
            elif kind == "literal":
                st, op = payload
                t = pnorm(FnView(lib, wb).root.T.operand(op))
                okl = any(x[0] == "call" and core.callee_base(x[1]) == "alloc::vec::Vec::new" for x in walk(t)) or t[0] == "const"
                ctx.check(okl, "B-LEN", wb, "states-literal:" + tag, wb.loc(bi), "a builder starts with an empty state vector; found %s" % show(t))


def rule_sanitiser(ctx, R, NR, BR):
    """KNOB-SAN3 (bw only)."""
    lib = ctx.lib
    v = R.v["bw"]
    r = BR.v.get("bw")
    if r is None or not r.ok:
        return
    b = r.sanitise
    S = Sites(lib, b)
    ub = S.named("unused_base_in_block", HELPER)
    ok = len(ub) == 1 and m(Par(3), ub[0]["args"][0]) and m(Par(2), ub[0]["args"][1])
    ctx.check(ok, "KNOB-SAN3", b, "unused-base-of-block", b.span, "the sanitiser must ask the helper for an unused base of the given block")
    pulls = S.keyed(lambda k: core.callee_base(k) == ITER_NEXT)
    okr = len(pulls) == 1 and m(C("core::ops::RangeInclusive::new", K(0), K(255)), pulls[0]["args"][0])
    ctx.check(okr, "KNOB-SAN3", b, "full-byte-range", b.span,
              "the sanitiser must cover every byte 0..=255; iterates %s" % [show(s["args"][0]) for s in pulls])
    if not (ok and okr):
        return
    # the sanitiser runs for EVERY block it is given: no return before the helper is asked, and once an unused base exists the
    # 256-byte loop is entered on every path (a "this block has no vacant slot" shortcut must not skip blocks that have some)
    rets0 = b.return_blocks()
    free = b.reach(0, avoid_blocks=[ub[0]["bb"]])
    usw = switches_on(S.root, lambda d: d[0] == "discr" and d[1][0] == "call" and d[1][3] == (b.path, ub[0]["bb"]))
    oke = not any(rb in free for rb in rets0) and len(usw) == 1 and \
        not any(rb in b.reach(opt_arms(usw[0][1])[0], avoid_blocks=[pulls[0]["bb"]]) for rb in rets0)
    ctx.check(oke, "KNOB-SAN3", b, "runs-for-every-block", b.span,
              "the sanitiser must ask for an unused base and, when there is one, visit all 256 slots — on every path (no early return "
              "for blocks believed full)")
    psite = (b.path, pulls[0]["bb"])
    c = P(C(anykey, ANY, site=psite))
    idx = B("BitXor", P(C(endswith("::unused_base_in_block"), ANY, ANY)), c)
    sc = S.named("set_check", v.S)
    oks = len(sc) == 1 and m(E(F(Par(1), "states"), idx), sc[0]["args"][0]) and m(c, sc[0]["args"][1])
    ctx.check(oks, "KNOB-SAN3", b, "check-equals-byte", b.loc(sc[0]["bb"]) if sc else b.span,
              "CHECK := c must be written at unused_base ^ c; found %s" % [(show(s["args"][0]), show(s["args"][1])) for s in sc])
    # guard, in any source form (`a || b || !used`, De Morgan + continue, nested ifs): decided by evaluating the loop body under
    # assumptions on the three atomic conditions (cond.explore)
    iu = S.named("is_used_index", HELPER)
    okg = len(iu) == 1 and m(idx, iu[0]["args"][1]) and bool(sc)
    psw = switches_on(S.root, lambda d: d[0] == "discr" and d[1][0] == "call" and d[1][3] == psite)
    okg = okg and len(psw) == 1
    if okg:
        body_head = opt_arms(psw[0][1])[0]
        pull = pulls[0]["bb"]
        scb = sc[0]["bb"]
        rets = b.return_blocks()
        usite = (b.path, iu[0]["bb"])

        def used(t):
            return t[0] == "call" and t[3] == usite

        def eq(cst):
            return lambda t: t[0] == "bin" and t[1] == "Eq" and ((m(idx, t[2]) and is_const(t[3], cst)) or (m(idx, t[3]) and is_const(t[2], cst)))
        ends = [pull] + rets
        ctx.check(cond.must_pass(S.root, [body_head], [(used, False)], [scb], ends), "KNOB-SAN3", b, "every-vacant-slot-stamped", b.span,
                  "EVERY vacant slot unused_base ^ c gets CHECK := c (no further condition may let one keep its default CHECK)")
        ctx.check(cond.never_reaches(S.root, [body_head], [(used, True), (eq(0), False), (eq(1), False)], [scb], ends),
                  "KNOB-SAN3", b, "only-vacant-or-reserved", b.span,
                  "only vacant slots (or the reserved ROOT/DEAD slots) may be overwritten: a used slot's CHECK must be kept")
        for const, nm in ((0, "root"), (1, "dead")):
            ctx.check(cond.must_pass(S.root, [body_head], [(eq(const), True), (eq(1 - const), False), (used, True)], [scb], ends),
                      "KNOB-SAN3", b, "reserved-%s-sanitised" % nm, b.span,
                      "the reserved %s slot (marked used, holds no edge) must be sanitised too" % nm.upper())
    else:
        ctx.check(False, "KNOB-SAN3", b, "only-vacant-or-reserved", b.span,
                  "the sanitiser must test is_used_index(unused_base ^ c) exactly once per byte and stamp through set_check")
    # every byte is visited: set_check not skipped by an early return inside the loop
    rets = b.return_blocks()
    sw = switches_on(S.root, lambda d: d[0] == "discr" and d[1][0] == "call" and d[1][3] == psite)
    if len(sw) == 1:
        some, none = opt_arms(sw[0][1])
        ctx.check(all(rb not in b.reach(some, avoid_blocks=[pulls[0]["bb"]]) for rb in rets), "KNOB-SAN3", b, "no-early-exit", b.span,
                  "the sanitising loop must not stop early")


# ----------------------------------------------------------------------------- NFA-DISPATCH etc.

def rule_dispatch(ctx, R, NR, BR, rules=None):
    lib = ctx.lib

    def want(r):
        return rules is None or r in rules
    if not NR.ok or NR.std_pass is None or NR.lm_pass is None:
        if NR.ok:
            ctx.missing("NFA-DISPATCH", "classified standard/leftmost fail passes")
        return
    for v in R.variants():
        r = BR.v.get(v.tag)
        if r is None or not r.ok:
            continue
        tag = v.tag
        b = r.nfa_fn
        S = Sites(lib, b)
        root = S.root
        std = [s for s in S.calls if s["c"].body_path == NR.std_pass.path]
        lmc = [s for s in S.calls if s["c"].body_path == NR.lm_pass.path]
        outs = [s for s in S.calls if s["c"].body_path == NR.outputs_pass.path]
        ok = len(std) == 1 and len(lmc) == 1 and len(outs) == 1
        if want("NFA-DISPATCH"):
            ctx.check(ok, "NFA-DISPATCH", b, "dispatch-on-kind:" + tag, b.span,
                      "one choice on self.match_kind between the standard and the leftmost fail pass, then the outputs pass")
        if not ok:
            continue
        if want("NFA-DISPATCH"):
            # evaluated per kind (match, matches!, ==, is_standard()/is_leftmost() — any form of the choice)
            mk_ok = lambda t: m(F(Par(1), "match_kind"), t)
            for kn in ("Standard", "LeftmostLongest", "LeftmostFirst"):
                vis = cond.explore(root, [0], cond.kind_atoms(lib, mk_ok, kn))
                want_bb, other_bb = (std[0]["bb"], lmc[0]["bb"]) if kn == "Standard" else (lmc[0]["bb"], std[0]["bb"])
                okk = vis is not None and want_bb in vis and other_bb not in vis and outs[0]["bb"] in vis
                if kn == "Standard":
                    ctx.check(okk, "NFA-DISPATCH", b, "standard-arm:" + tag, b.loc(std[0]["bb"]), "MatchKind::Standard must use the standard fail pass")
                else:
                    ctx.check(okk, "NFA-DISPATCH", b, "leftmost-arm:%s:%s" % (kn, tag), b.loc(lmc[0]["bb"]), "MatchKind::%s must use the leftmost fail pass" % kn)
            q = outs[0]["args"][1]
            qdefs = members(q)
            if q[0] == "var":
                qdefs = [pnorm(t) for k, t, bb_ in root.T.container_defs(q[2])]
            okq = all((x[0] == "call" and x[3][1] in (std[0]["bb"], lmc[0]["bb"])) for x in qdefs) and len(qdefs) == 2
            ctx.check(okq, "NFA-DISPATCH", b, "queue-to-outputs:" + tag, b.loc(outs[0]["bb"]),
                      "the outputs pass must receive the queue returned by the fail pass; got %s" % show(q))
        # VALID-NONEMPTY: len == 0 -> Err(invalid_argument) dominates the passes and Ok
        if want("VALID-NONEMPTY"):
            # decided under the assumption nfa.len == 0 / != 0 (the test may sit in this function or in an inlined helper whose
            # Result is propagated with `?`)
            def zero(t):
                return t[0] == "bin" and t[1] == "Eq" and ((m(F(ANY, "len", NR.N), t[2]) and is_const(t[3], 0)) or
                                                          (m(F(ANY, "len", NR.N), t[3]) and is_const(t[2], 0)))
            ia = {s["bb"] for s in S.named("invalid_argument") if s["vw"] is root}
            oks = {bi for bi, si, st in b.stmts() if st["k"] == "assign" and st["lhs"]["local"] == 0 and st["rv"]["k"] == "aggregate" and st["rv"].get("variant") == "Ok"}
            passes = {x["bb"] for x in std + lmc + outs}
            v_empty = cond.explore(root, [0], [(zero, True)])
            v_some = cond.explore(root, [0], [(zero, False)])
            okz = v_empty is not None and v_some is not None and bool(v_empty & ia) and not (v_empty & passes) and not (v_empty & oks) and \
                bool(oks) and bool(v_some & passes) and bool(switches_on(root, lambda d: zero(d) or (d[0] == "bin" and d[1] == "Ne" and zero(("bin", "Eq", d[2], d[3])))))
            ctx.check(okz, "VALID-NONEMPTY", b, "empty-set-rejected:" + tag, b.span,
                      "`nfa.len == 0` must return invalid_argument before the fail/outputs passes and before Ok")
        # VALID-SCALE: the documented limit on the number of patterns is 2^24 - 1 (values/output positions are 24-bit): a collection of
        # exactly that many patterns is still built, one more is refused with automaton_scale before the passes
        # (byte-wise only: the char-wise state keeps a full 32-bit output position and has no such guard)
        if want("VALID-SCALE") and tag == "bw":
            is_len = lambda t: m(F(ANY, "len", NR.N), t)
            sc = {s["bb"] for s in S.named("automaton_scale") if s["vw"] is root}
            oks = {bi for bi, si, st in b.stmts() if st["k"] == "assign" and st["lhs"]["local"] == 0 and st["rv"]["k"] == "aggregate" and st["rv"].get("variant") == "Ok"}
            passes = {x["bb"] for x in std + lmc + outs}
            v_max = cond.explore(root, [0], cond.pin_atoms(is_len, 0xFFFFFF))
            v_over = cond.explore(root, [0], cond.pin_atoms(is_len, 0x1000000))
            ok_max = v_max is not None and bool(v_max & passes) and bool(v_max & oks)
            ok_over = v_over is not None and not (v_over & passes) and not (v_over & oks) and bool(v_over & sc)
            ctx.check(ok_max, "VALID-SCALE", b, "limit-inclusive:" + tag, b.span,
                      "a collection of exactly U24::MAX patterns is within the documented limit and must reach the construction passes")
            ctx.check(ok_over, "VALID-SCALE", b, "limit-enforced:" + tag, b.span,
                      "more than U24::MAX patterns must be refused with automaton_scale before the construction passes")
        # the nfa handed on is the one add() was called on; add errors are propagated
        if want("VALID-PROP"):
            adds = S.named("add", NR.N)
            okp = len(adds) == 1
            if okp:
                swp = switches_on(root, lambda d: d[0] == "discr" and d[1][0] == "call" and core.callee_base(d[1][1]) == "core::ops::Try::branch"
                                  and d[1][2][0][0] == "call" and d[1][2][0][3] == (b.path, adds[0]["bb"]))
                okp = len(swp) == 1
            ctx.check(okp, "VALID-PROP", b, "add-error-propagated:" + tag, b.span, "the Result of nfa.add must be propagated with `?`")
            if adds:
                a = adds[0]
                if tag == "bw":
                    okarg = a["args"][1][0] == "field" or True
                pat_item = P(C(ITER_NEXT, ANY))
                okv = m(F(pat_item, "1", "(tuple)"), a["args"][2])
                ctx.check(okv, "VAL-ADD", b, "value-paired-with-pattern:" + tag, b.loc(a["bb"]),
                          "add must receive the value of the same (pattern, value) item; found %s" % show(a["args"][2]))
                if tag == "bw":
                    okpat = m(F(pat_item, "0", "(tuple)"), a["args"][1])
                    ctx.check(okpat, "VAL-ADD", b, "pattern-of-item:" + tag, b.loc(a["bb"]), "add must receive pattern.as_ref() of the item; found %s" % show(a["args"][1]))
        if tag == "cw" and (want("CW-NB") or want("B-MAP") or want("PERM-FREQ")):
            _cw_nfa_fn(ctx, v, NR, b, S, want)


def _cw_nfa_fn(ctx, v, NR, b, S, want):
    """cw: all chars of the pattern go to add; the mapper is built from a histogram of exactly those
    chars and assigned to self.mapper."""
    root = S.root
    adds = S.named("add", NR.N)
    if len(adds) != 1:
        return
    chars = adds[0]["args"][1]
    okc = chars[0] == "var"
    if okc:
        adds_ = coll.additions(S, lambda t: core.same(t, chars), closures=True)
        clears = [s for s in S.keyed(lambda k: k == "alloc::vec::Vec::clear") if core.same(s["args"][0], chars)]
        pat_item = P(C(ITER_NEXT, ANY))
        okc = len(adds_) == 1 and m(It(C(endswith("::chars"), F(pat_item, "0", "(tuple)"))), adds_[0].val) and len(clears) == 1 and \
            not adds_[0].filters and adds_[0].unconditional()
    if want("CW-NB"):
        ctx.check(okc, "CW-NB", b, "all-chars-added:cw", b.loc(adds[0]["bb"]),
                  "every char of the pattern (pattern.as_ref().chars()) must be passed to add")
    # frequency histogram: freqs[c] += 1 for c in chars
    if want("B-MAP") or want("PERM-FREQ"):
        news = S.named("new", "charwise::mapper::CodeMapper")
        okn = len(news) == 1 and news[0]["args"][0][0] == "var"
        ws = [s for s in S.stores if m(F(Par(1), "mapper"), s["tgt"])]
        okn = okn and len(ws) == 1 and ws[0]["val"][0] == "call" and ws[0]["val"][3] == (b.path, news[0]["bb"])
        ctx.check(okn, "B-MAP", b, "mapper-assigned:cw", b.span, "self.mapper must be assigned CodeMapper::new(&freqs)")
        if okn:
            freqs = news[0]["args"][0]
            incs = [s for s in S.stores if s["tgt"][0] == "elem" and core.same(s["tgt"][1], freqs)]
            okf = len(incs) == 1 and m(B("Add", E(lambda t, e: core.same(t, freqs), V("c")), K(1)), incs[0]["val"])
            if okf:
                idx = incs[0]["tgt"][2]
                okf = any(x[0] == "call" and core.callee_base(x[1]) == ITER_NEXT and x[2][0][0] == "var" and core.same(x[2][0], chars) for x in walk(idx))
            ctx.check(okf, "PERM-FREQ", b, "histogram:cw", b.span,
                      "the mapper's input must be a histogram over the chars passed to add (freqs[c] += 1 for each char)")
            if okf:
                # ... of EVERY pattern handed to add and of every one of its chars: from the successful return of add, each path to
                # the next pattern passes the counting loop; inside it every char reaches the increment (what counts must not depend
                # on what add found in the trie, i.e. on the registration order)
                ppulls = [s_ for s_ in S.calls if s_["vw"] is root and core.callee_base(s_["key"]) == ITER_NEXT and b.in_cycle(s_["bb"]) and
                          b.dominates(s_["bb"], adds[0]["bb"]) and s_["bb"] in b.reach(adds[0]["bb"])]
                cpulls = [s_ for s_ in S.calls if s_["vw"] is root and core.callee_base(s_["key"]) == ITER_NEXT and
                          core.same(pat.strip_iter(pat.iter_origin(s_["args"][0])), chars) and b.dominates(s_["bb"], incs[0]["bb"])]
                okc = len(ppulls) >= 1 and len(cpulls) == 1
                if okc:
                    ppull = ppulls[-1]["bb"]
                    errs_ = [x["bb"] for x in _err_exits(b)] + b.return_blocks()
                    # every pattern: add -> (error exit | counting loop) before the next pattern is pulled
                    okc = ppull not in b.reach(adds[0]["bb"], avoid_blocks=[cpulls[0]["bb"]] + errs_)
                    # every char: pulled char -> increment before the next char
                    csw = switches_on(root, lambda d: d[0] == "discr" and d[1][0] == "call" and d[1][3] == (b.path, cpulls[0]["bb"]))
                    okc = okc and len(csw) == 1
                    if okc:
                        some_c = opt_arms(csw[0][1])[0]
                        okc = cpulls[0]["bb"] not in (b.reach(some_c, avoid_blocks=[incs[0]["bb"]]) - {some_c} if some_c != incs[0]["bb"] else set())
                ctx.check(okc, "PERM-FREQ", b, "every-pattern-counted:cw", b.span,
                          "the chars of EVERY pattern passed to add must be counted (no pattern or char may be skipped depending on what "
                          "add found: the histogram, and so the code assignment, must not depend on the registration order)")
            # the histogram's length must not depend on the order in which characters were seen: grown to exactly c+1
            rs = [s_ for s_ in S.keyed(lambda k: k == "alloc::vec::Vec::resize") if core.same(s_["args"][0], freqs)]
            okr = True
            def max_of_counted(t, e):
                # the largest of the very items the counting loop walks: `chars.iter().max()` over the same collection
                if not (t[0] == "payload" and t[1][0] == "call" and isinstance(t[1][1], str) and core.callee_base(t[1][1]) == "core::iter::Iterator::max"
                        and len(t[1][2]) == 1):
                    return False
                src_ = pat.strip_iter(pat.iter_origin(t[1][2][0]))
                idx_ = incs[0]["tgt"][2]
                cnt_ = None
                for y in walk(idx_):
                    if y[0] == "call" and isinstance(y[1], str) and core.callee_base(y[1]) == ITER_NEXT and y[2]:
                        cnt_ = pat.strip_iter(pat.iter_origin(y[2][0]))
                return cnt_ is not None and core.same(src_, cnt_)
            for s_ in rs:
                okr = okr and okf and is_const(s_["args"][2], 0) and \
                    (m(B("Add", lambda t, e: core.same(t, incs[0]["tgt"][2]), K(1)), s_["args"][1]) or m(B("Add", max_of_counted, K(1)), s_["args"][1]))
            eff = sorted({core.callee_base(s_["key"]).split("::")[-1] for s_ in S.calls if s_["args"] and core.same(s_["args"][0], freqs)
                          and not s_["c"].local and core.callee_base(s_["key"]) not in core.IDENTITY_KEYS})
            ctx.check(okr and set(eff) <= {"resize", "len", "index", "index_mut", "deref"}, "PERM-FREQ", b, "histogram-length-minimal:cw", b.span,
                      "the histogram may only grow to exactly (largest code point seen)+1, filled with zeros — its final length (and so the mapper "
                      "table) must not depend on the order of registration; resize args %s, effects %s" % ([show(s_["args"][1]) for s_ in rs], eff))


def rule_builder_config(ctx, R):
    """BLD-CONF: builder setters store their argument in the field of the same name; a new builder is Standard with an
    empty state vector; num_free_blocks refuses 0."""
    lib = ctx.lib
    for v in R.variants():
        if not v.ok:
            continue
        tag = v.tag
        nb = lib.one_body(adt=v.builder, name="new")
        if nb is not None:
            t = pnorm(FnView(lib, nb).root.ret())
            f = dict(t[3]) if t[0] == "agg" else {}
            ctx.check(f.get("match_kind", ("x",))[0] == "agg" and f["match_kind"][2] == "Standard", "BLD-CONF", nb, "default-kind:" + tag, nb.span,
                      "a new builder builds a Standard automaton unless told otherwise")
            nf = f.get("num_free_blocks", ("x",))
            ctx.check(nf[0] == "const" and isinstance(nf[1], int) and nf[1] >= 1, "BLD-CONF", nb, "default-free-blocks:" + tag, nb.span,
                      "the default num_free_blocks must be >= 1; found %s" % show(nf))
        for setter, field in (("match_kind", "match_kind"), ("num_free_blocks", "num_free_blocks")):
            sb = lib.one_body(adt=v.builder, name=setter)
            if sb is None:
                ctx.missing("BLD-CONF", "%s::%s" % (v.builder, setter))
                continue
            S = Sites(lib, sb)
            ws = [s_ for s_ in S.stores] + []
            # `mut self` by value: the field write is a partial write of the local, visible in the returned term
            t = pnorm(S.root.ret())
            part = [x for x in members(t) if x[0] == "partial"]
            ok = any(x[1] == (field,) and m(Par(2), x[2]) for x in part) or any(m(F(Par(1), field), s_["tgt"]) and m(Par(2), s_["val"]) for s_ in ws)
            ctx.check(ok, "BLD-CONF", sb, "setter:%s:%s" % (setter, tag), sb.span,
                      "%s(x) must store x in self.%s and return the builder; returns %s" % (setter, field, show(t)[:120]))
            if setter == "num_free_blocks":
                sw = switches_on(S.root, lambda d: d[0] == "bin" and d[1] in ("Ge", "Gt", "Ne", "Lt", "Le", "Eq") and any(x[0] == "param" and x[1] == 2 for x in (d[2], d[3])))
                panics = [s_["bb"] for s_ in S.calls if s_["key"].startswith("core::panicking::")]
                ctx.check(len(sw) >= 1 and bool(panics), "BLD-CONF", sb, "rejects-zero:" + tag, sb.span, "num_free_blocks(0) must be refused (documented panic)")
                # exactly zero is refused: with the argument pinned to 0 no return is reachable, with it pinned to 1 (the smallest
                # documented value), 2, the default and u32::MAX no panic is
                is_n = lambda t: t[0] == "param" and t[1] == 2
                rets = set(sb.return_blocks())
                v0 = cond.explore(S.root, [0], cond.pin_atoms(is_n, 0))
                okz = v0 is not None and not (v0 & rets) and bool(v0 & set(panics))
                bad = [n for n in (1, 2, 16, 0xFFFFFFFF) for vn in [cond.explore(S.root, [0], cond.pin_atoms(is_n, n))]
                       if vn is None or (vn & set(panics)) or not (vn & rets)]
                ctx.check(okz and not bad, "BLD-CONF", sb, "refuses-exactly-zero:" + tag, sb.span,
                          "num_free_blocks(n) must panic for n == 0 and only then (documented: n >= 1); %s"
                          % ("n = 0 is accepted" if not okz else "refused although valid: n = %s" % bad))


def rule_build_entry(ctx, R, NR, BR, rules=None):
    """STAT-NS(builder), B-MOVE, VALID-CONV, VALID-ENTRY, VAL-IDX, VALID-PROP on the entry points."""
    lib = ctx.lib

    def want(r):
        return rules is None or r in rules
    for v in R.variants():
        r = BR.v.get(v.tag)
        if r is None or not r.ok or not NR.ok:
            continue
        tag = v.tag
        b = v.build_with_values
        S = Sites(lib, b)
        root = S.root
        nfa_calls = [s for s in S.calls if s["c"].body_path == r.nfa_fn.path]
        place_calls = [s for s in S.calls if s["c"].body_path == r.place.path]
        ok = len(nfa_calls) == 1 and len(place_calls) == 1
        if not ok:
            ctx.bad("B-MOVE", b, "entry-shape:" + tag, b.span, "build_with_values must build the NFA once and the array once")
            continue
        nfa_t = P(C(anykey, *([ANY] * len(nfa_calls[0]["args"])), site=(b.path, nfa_calls[0]["bb"])))
        lits = [pnorm(root.T.rvalue(st["rv"])) for bi, si, st in b.stmts() if st["k"] == "assign" and st["rv"]["k"] == "aggregate" and st["rv"].get("adt") == v.A]
        if len(lits) != 1:
            ctx.bad("B-MOVE", b, "automaton-literal:" + tag, b.span, "exactly one automaton literal expected")
            continue
        f = dict(lits[0][3])
        if want("B-MOVE"):
            ctx.check(m(F(Par(1), "states"), f.get("states", ("undef",))), "B-MOVE", b, "states-moved:" + tag, b.span,
                      "the automaton's states must be the builder's vector (moved, not copied or re-derived); found %s" % show(f.get("states", ("undef",))))
            ctx.check(m(F(nfa_t, "outputs", NR.N), f.get("outputs", ("undef",))), "B-MOVE", b, "outputs-moved:" + tag, b.span,
                      "the automaton's outputs must be the NFA's output vector; found %s" % show(f.get("outputs", ("undef",))))
            ctx.check(m(F(Par(1), "match_kind"), f.get("match_kind", ("undef",))), "B-MOVE", b, "match-kind-moved:" + tag, b.span,
                      "the automaton's match kind must be the builder's; found %s" % show(f.get("match_kind", ("undef",))))
            if tag == "cw":
                ctx.check(m(F(Par(1), "mapper"), f.get("mapper", ("undef",))), "B-MOVE", b, "mapper-moved:" + tag, b.span,
                          "the automaton's mapper must be the builder's mapper; found %s" % show(f.get("mapper", ("undef",))))
            # the array is built from the same nfa
            ctx.check(m(nfa_t, place_calls[0]["args"][1]), "B-MOVE", b, "array-from-same-nfa:" + tag, b.loc(place_calls[0]["bb"]),
                      "build_double_array must be given the NFA just built")
        if want("STAT-NS"):
            ns = f.get("num_states", ("undef",))
            ctx.check(m(B("Sub", C(VEC_LEN, F(nfa_t, "states", NR.N)), K(1)), ns), "STAT-NS", b, "num_states:" + tag, b.span,
                      "num_states must be nfa.states.len() - 1 (all trie nodes, minus the dead state); found %s" % show(ns), show(ns))
        if want("VALID-PROP"):
            for s in nfa_calls + place_calls:
                sw = switches_on(root, lambda d: d[0] == "discr" and d[1][0] == "call" and core.callee_base(d[1][1]) == "core::ops::Try::branch"
                                 and d[1][2][0][0] == "call" and d[1][2][0][3] == (b.path, s["bb"]))
                ctx.check(len(sw) == 1, "VALID-PROP", b, "propagated:%s:%s" % (s["name"], tag), b.loc(s["bb"]),
                          "the Result of %s must be propagated with `?`" % s["name"])
        # ---- build(): index conversion
        bb = v.build
        SB = Sites(lib, bb)
        if want("VALID-CONV") or want("VAL-IDX"):
            tf = SB.keyed(lambda k: core.callee_base(k) == "core::convert::TryFrom::try_from")
            okc = len(tf) == 1 and tf[0]["vw"] is not SB.root
            if okc:
                # closure param = item of enumerate(into_iter(patterns)); try_from gets item.0
                a = tf[0]["args"][0]
                okc = a[0] == "field" and a[3] == "0" and a[1][0] == "item" and \
                    any(x[0] == "call" and core.callee_base(x[1]) == "core::iter::Iterator::enumerate" for x in walk(a[1]))
            if want("VAL-IDX"):
                ctx.check(okc, "VAL-IDX", bb, "value-is-enumerate-index:" + tag, bb.span,
                          "the value of pattern i must be V::try_from(i) with i the enumerate index of that same item")
            if okc and want("VAL-IDX"):
                # pairing: the closure returns map(try_from(i), |i| (p, i)) with p = item.1
                cv = tf[0]["vw"]
                cr = SB.fv.resolve(cv.ret())
                okp = any(x[0] == "tuple" and len(x[1]) == 2 and x[1][0][0] == "field" and x[1][0][3] == "1" and x[1][0][1][0] == "item"
                          for x in walk(cr))
                ctx.check(okp, "VAL-IDX", bb, "pattern-paired-with-own-index:" + tag, bb.span,
                          "each pattern must be paired with the conversion of its own index; closure returns %s" % show(cr))
            if want("VALID-CONV"):
                ic = SB.named("invalid_conversion")
                bad_unwraps = SB.keyed(lambda k: core.callee_base(k) in ("core::result::Result::unwrap_or_default", "core::result::Result::unwrap_or",
                                                                        "core::result::Result::unwrap", "core::result::Result::ok",
                                                                        "core::result::Result::unwrap_or_else", "core::result::Result::expect"))
                me = SB.keyed(lambda k: core.callee_base(k) == "core::result::Result::map_err")
                okv = len(ic) == 1 and not bad_unwraps and len(me) == 1
                if okv:
                    # map_err's receiver derives from the collect of the try_from results and is then `?`-propagated
                    recv = me[0]["args"][0]
                    okv = any(x[0] == "call" and core.callee_base(x[1]) == "core::iter::Iterator::collect" for x in walk(recv))
                    sw = switches_on(SB.root, lambda d: d[0] == "discr" and d[1][0] == "call" and core.callee_base(d[1][1]) == "core::ops::Try::branch"
                                     and d[1][2][0][0] == "call" and d[1][2][0][3] == (bb.path, me[0]["bb"]))
                    okv = okv and len(sw) == 1
                if not okv and len(ic) == 1 and not bad_unwraps:
                    # any other form (`match collected { Ok(p) => .., Err(_) => Err(invalid_conversion(..)) }`): evaluated under the
                    # assumption that the collected Result is Err / Ok
                    cols = [s_ for s_ in SB.calls if s_["vw"] is SB.root and core.callee_base(s_["key"]) == "core::iter::Iterator::collect"]
                    bwv = {s_["bb"] for s_ in SB.calls if s_["vw"] is SB.root and s_["c"].body_path == v.build_with_values.path}
                    if len(cols) == 1 and bwv:
                        csite = (bb.path, cols[0]["bb"])
                        is_col = lambda t: t[0] == "call" and t[3] == csite
                        # the root-level site through which the error constructor is reached (itself, or the combinator given its closure)
                        icv = ic[0]["vw"]
                        icb = {ic[0]["bb"]} if icv is SB.root else ({icv.via[0]} if icv.via and icv.parent is SB.root else set())
                        v_err = cond.explore(SB.root, [0], [], some_atoms=[(is_col, False)])
                        v_ok = cond.explore(SB.root, [0], [], some_atoms=[(is_col, True)])
                        okv = v_err is not None and v_ok is not None and bool(icb) and bool(v_err & icb) and not (v_err & bwv) and bool(v_ok & bwv) and \
                            (icv is not SB.root or not (v_ok & icb))
                ctx.check(okv, "VALID-CONV", bb, "conversion-failure-reported:" + tag, bb.span,
                          "a failing V::try_from(i) must surface as Err(invalid_conversion) (collected, map_err, `?`), never unwrapped or defaulted")
        if want("VALID-ENTRY"):
            bw_calls = [s for s in SB.calls if s["c"].body_path == v.build_with_values.path]
            ctx.check(len(bw_calls) == 1 and m(Par(1), bw_calls[0]["args"][0]), "VALID-ENTRY", bb, "build-delegates:" + tag, bb.span,
                      "build must delegate to build_with_values on the same builder")
            for ep, target in ((v.new, v.build), (v.with_values, v.build_with_values)):
                SE = Sites(lib, ep)
                cs = [s for s in SE.calls if s["c"].body_path == target.path]
                nb = [s for s in SE.calls if s["c"].adt == v.builder and s["name"] == "new"]
                okd = len(cs) == 1 and len(nb) == 1 and cs[0]["args"][0][0] == "call" and cs[0]["args"][0][3] == (ep.path, nb[0]["bb"]) and \
                    m(Par(1), cs[0]["args"][1])
                ctx.check(okd, "VALID-ENTRY", ep, "delegates-to-default-builder:" + tag, ep.span,
                          "%s must be exactly Builder::new().%s(arg)" % (ep.name, target.name))
