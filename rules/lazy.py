"""LAZY-TYPE, LAZY-CTOR, LAZY-ADAPT (C12), DEC (C08/C07/C12), SAFE-UTF8-CTOR, SAFE-API, ENC, SAFE-INV (C07)."""
from . import core
from .core import Callee, walk, show
from .view import FnView, pnorm, OPTION
from .pat import m, ANY, V, K, Par, C, F, E, P, B, Phi, members
from .da import Sites, endswith, anykey
from .search import switches_on, opt_arms, bool_arms, is_const, self_param, GET_UNCHECKED, STR_GET_UNCHECKED
from .roles import SEARCH_METHODS

ITER_NEXT = "core::iter::Iterator::next"
DECODER = "charwise::iter::CharWithEndOffsetIterator"
ADAPTERS = {"bw": "bytewise::iter::U8SliceIterator", "cw": "charwise::iter::StrIterator"}


# ----------------------------------------------------------------------------- LAZY-TYPE / CTOR

def _ctor_literal(lib, b, I):
    S = Sites(lib, b)
    lits = [pnorm(S.root.T.rvalue(st["rv"])) for bi, si, st in b.stmts()
            if st["k"] == "assign" and st["rv"]["k"] == "aggregate" and st["rv"].get("adt") == I]
    return S, lits


def _kind_assert(ctx, b, S, want_pred, rule, tag):
    """the constructor asserts self.match_kind.<pred>() and panics otherwise, before building the iterator"""
    sw = switches_on(S.root, lambda d: d[0] == "call" and isinstance(d[1], str) and d[1].endswith("MatchKind::" + want_pred)
                     and m(F(Par(1), "match_kind"), d[2][0]))
    ok = len(sw) == 1
    if ok:
        sbi, stj, d = sw[0]
        tt, ff = bool_arms(stj)
        panics = [s["bb"] for s in S.calls if s["key"].startswith("core::panicking::")]
        rets = b.return_blocks()
        ok = ff is not None and all(r not in b.reach(ff) for r in rets) and any(p in b.reach(ff) for p in panics)
    ctx.check(ok, rule, b, "kind-assert:" + tag, b.span,
              "the entry point must panic unless self.match_kind.%s() (searching with the wrong iterator kind is refused)" % want_pred)


def rule_lazy_ctor(ctx, R, rules=None):
    lib = ctx.lib

    def want(r):
        return rules is None or r in rules
    for v in R.variants():
        if not v.ok:
            continue
        adapter = ADAPTERS[v.tag]
        for meth, twin, kind in SEARCH_METHODS:
            I = v.iters.get(kind)
            if I is None:
                continue
            tag = "%s:%s" % (v.tag, kind)
            pred = "is_leftmost" if kind == "leftmost" else "is_standard"
            lits = {}
            for name in (meth, twin):
                if name is None:
                    continue
                b = v.methods.get(name)
                if b is None:
                    continue
                S, ls = _ctor_literal(lib, b, I)
                delegated = False
                if not ls and twin and name == meth and v.methods.get(twin) is not None:
                    # the slice entry point written as a delegation to its `_from_iter` twin on the adapted source: it builds what
                    # the twin builds with the twin's source parameter replaced by the adapter (and refuses what the twin refuses)
                    tw = v.methods[twin]
                    dcalls = [s_ for s_ in S.calls if s_["vw"] is S.root and s_["c"].body_path == tw.path]
                    rt = pnorm(S.root.ret())
                    if len(dcalls) == 1 and rt[0] == "call" and rt[3] == (b.path, dcalls[0]["bb"]) and m(Par(1), dcalls[0]["args"][0]) and \
                            all(b.dominates(dcalls[0]["bb"], r_) for r_ in b.return_blocks()):
                        from .view import ret_term
                        lit = ret_term(lib, tw.path, dcalls[0]["args"])
                        lit = pnorm(lit) if lit is not None else None
                        if lit is not None and lit[0] == "agg" and lit[1] == I:
                            ls = [lit]
                            delegated = True
                if want("LAZY-CTOR") and not delegated:
                    _kind_assert(ctx, b, S, pred, "LAZY-CTOR", tag + ":" + name)
                if len(ls) != 1:
                    ctx.bad("LAZY-CTOR", b, "single-literal:" + tag, b.span, "exactly one %s literal expected" % I)
                    continue
                lits[name] = dict(ls[0][3])
                f = lits[name]
                if want("LAZY-CTOR"):
                    ctx.check(m(Par(1), f.get("pma", ("undef",))), "LAZY-CTOR", b, "pma-is-self:" + tag + ":" + name, b.span, "pma must be self")
                    if "state_id" in f:
                        ctx.check(is_const(f["state_id"], 0), "LAZY-CTOR", b, "starts-at-root:" + tag + ":" + name, b.span,
                                  "a fresh iterator starts in the ROOT state; found %s" % show(f["state_id"]))
                    if "output_pos" in f:
                        ctx.check(f["output_pos"][0] == "agg" and f["output_pos"][2] == "None", "LAZY-CTOR", b, "no-pending-output:" + tag + ":" + name,
                                  b.span, "a fresh iterator has no pending output; found %s" % show(f["output_pos"]))
                    if "pos" in f:
                        ctx.check(is_const(f["pos"], 0), "LAZY-CTOR", b, "pos-zero:" + tag + ":" + name, b.span,
                                  "a fresh iterator starts at offset 0; found %s" % show(f["pos"]))
                    # source expression
                    h = f.get("haystack", ("undef",))
                    if kind == "leftmost":
                        okh = m(Par(2), h)
                        desc = "the haystack parameter"
                    elif name == meth:
                        inner = C(adapter + "::new", Par(2))
                        okh = m(C("core::iter::Iterator::enumerate", inner), h) if v.tag == "bw" else m(C(DECODER + "::new", inner), h)
                        desc = ("enumerate(U8SliceIterator::new(h))" if v.tag == "bw" else "CharWithEndOffsetIterator::new(StrIterator::new(h))")
                    else:
                        okh = m(C("core::iter::Iterator::enumerate", Par(2)), h) if v.tag == "bw" else m(C(DECODER + "::new", Par(2)), h)
                        desc = ("enumerate(h)" if v.tag == "bw" else "CharWithEndOffsetIterator::new(h)")
                    ctx.check(okh, "LAZY-CTOR", b, "source:" + tag + ":" + name, b.span, "the source must be %s; found %s" % (desc, show(h)), show(h))
            if twin and meth in lits and twin in lits and want("LAZY-CTOR"):
                a, c = lits[meth], lits[twin]
                same = all(core.same(a.get(k), c.get(k)) for k in set(a) | set(c) if k != "haystack")
                ctx.check(same and set(a) == set(c), "LAZY-CTOR", v.methods[twin], "twins-agree:" + tag, v.methods[twin].span,
                          "slice and iterator entry points must build the same iterator state (differing only in the source adapter)")
        # LAZY-TYPE: one Iterator impl per iterator type with P: Iterator<Item = u8>
        if want("LAZY-TYPE"):
            for kind, I in v.iters.items():
                if kind == "leftmost":
                    continue
                imps = [i for i in lib.impls if i["trait"] == "core::iter::Iterator" and i["self_tyj"].get("path") == I]
                ok = len(imps) == 1 and "<P as core::iter::Iterator>::Item == u8" in imps[0]["generics"]["preds"] and \
                    "P: core::iter::Iterator" in imps[0]["generics"]["preds"]
                extra = [p for p in (imps[0]["generics"]["preds"] if imps else []) if "AsRef" in p or "ExactSize" in p or "DoubleEnded" in p or "Clone" in p]
                ctx.check(ok and not extra, "LAZY-TYPE", I, "one-generic-impl:" + v.tag + ":" + kind, lib.adts[I]["span"],
                          "exactly one `impl<P: Iterator<Item = u8>> Iterator for %s` (slice and iterator searches run the same code)" % I)


def rule_lazy_adapt(ctx, R):
    lib = ctx.lib
    for v in R.variants():
        ad = ADAPTERS[v.tag]
        nb = lib.find_bodies(adt=ad, trait="core::iter::Iterator", name="next")
        cb = lib.one_body(adt=ad, name="new")
        if len(nb) != 1 or cb is None:
            ctx.missing("LAZY-ADAPT", "%s::next / new" % ad)
            continue
        b = nb[0]
        S = Sites(lib, b)
        gets = S.keyed(lambda k: k == "core::slice::get")
        ok = len(gets) == 1 and m(F(Par(1), "inner"), gets[0]["args"][0]) and m(F(Par(1), "pos"), gets[0]["args"][1])
        ctx.check(ok, "LAZY-ADAPT", b, "checked-get-at-pos:" + v.tag, b.span,
                  "the adapter must read inner bytes with the checked `get(self.pos)`; found %s" % [[show(a) for a in s["args"]] for s in gets])
        bad = [s for s in S.calls if s["c"].unsafe or core.callee_base(s["key"]) == "core::ops::Index::index"]
        ctx.check(not bad, "LAZY-ADAPT", b, "no-unchecked:" + v.tag, b.span, "no unchecked/panicking access in the adapter")
        ret = pnorm(S.root.ret())
        somes = [x for x in members(ret) if x[0] == "agg" and x[2] == "Some"]
        okr = len(somes) == 1 and gets and m(E(F(Par(1), "inner"), F(Par(1), "pos")), dict(somes[0][3])["0"])
        ctx.check(okr, "LAZY-ADAPT", b, "returns-byte-read:" + v.tag, b.span, "Some(x) must carry the byte just read; returns %s" % show(ret))
        ws = [s for s in S.stores if m(F(Par(1), "pos"), s["tgt"])]
        okw = len(ws) == 1 and m(B("Add", F(Par(1), "pos"), K(1)), ws[0]["val"])
        ctx.check(okw, "LAZY-ADAPT", b, "pos-plus-one:" + v.tag, b.span, "pos must advance by exactly 1 per byte; writes %s" % [show(s["val"]) for s in ws])
        if okw and gets:
            # only when a byte was read: guarded by the Some arm of the test on get()'s result (`?`, match, if let) and on every
            # path from that arm to the return
            gsite = (b.path, gets[0]["bb"])

            def on_get(d):
                if d[0] != "discr":
                    return False
                x = d[1]
                if x[0] == "call" and isinstance(x[1], str) and core.callee_base(x[1]) == "core::ops::Try::branch":
                    x = x[2][0]
                return x[0] == "call" and x[3] == gsite
            sw = switches_on(S.root, on_get)
            okp = len(sw) == 1
            if okp:
                d = sw[0][2]
                via_try = d[1][0] == "call" and core.callee_base(d[1][1]) == "core::ops::Try::branch"
                if via_try:
                    cont = [tb for val, tb in sw[0][1]["targets"] if val == 0]
                    brk = [tb for val, tb in sw[0][1]["targets"] if val == 1] or [sw[0][1]["otherwise"]]
                else:
                    some_, none_ = opt_arms(sw[0][1])
                    cont, brk = [some_], [none_]
                okp = bool(cont) and b.edge_guards((sw[0][0], cont[0]), ws[0]["bb"]) and ws[0]["bb"] not in b.reach(brk[0]) and \
                    all(r not in b.reach(cont[0], avoid_blocks=[ws[0]["bb"]]) for r in b.return_blocks()) and not b.in_cycle(ws[0]["bb"])
            ctx.check(okp, "LAZY-ADAPT", b, "advance-iff-some:" + v.tag, b.span, "pos advances exactly once when a byte is returned and not at the end")
        CS, lits = _ctor_literal(lib, cb, ad)
        okc = len(lits) == 1 and is_const(dict(lits[0][3]).get("pos", ("undef",)), 0) and m(Par(1), dict(lits[0][3]).get("inner", ("undef",)))
        ctx.check(okc, "LAZY-ADAPT", cb, "starts-at-zero:" + v.tag, cb.span, "a new adapter wraps the haystack with pos = 0")
        # pos / inner written nowhere else
        for fname in ("pos", "inner"):
            for wb, bi, kind, payload in lib.field_writes().get((ad, fname), []):
                if kind == "assign":
                    ctx.check(wb is b and fname == "pos", "LAZY-ADAPT", wb, "field-writer:%s:%s" % (v.tag, fname), wb.loc(bi),
                              "%s.%s may be written only by next()" % (ad, fname))


# ----------------------------------------------------------------------------- DEC

def _flatten_or(t, shift=0):
    """OR-list of (operand, total shift)"""
    if t[0] == "bin" and t[1] == "BitOr":
        return _flatten_or(t[2], shift) + _flatten_or(t[3], shift)
    if t[0] == "bin" and t[1] == "Shl" and t[3][0] == "const" and isinstance(t[3][1], int):
        return _flatten_or(t[2], shift + t[3][1])
    if t[0] == "bin" and t[1] == "Mul" and t[3][0] == "const" and isinstance(t[3][1], int) and t[3][1] & (t[3][1] - 1) == 0 and t[3][1] > 0:
        return _flatten_or(t[2], shift + t[3][1].bit_length() - 1)
    return [(t, shift)]


def _masked_byte(t):
    """(pull site, mask) for `pulled_byte & mask` (mask None = no mask)"""
    mask = None
    x = t
    if x[0] == "bin" and x[1] == "BitAnd":
        a, c = x[2], x[3]
        if a[0] == "const":
            mask, x = a[1], c
        elif c[0] == "const":
            mask, x = c[1], a
    if x[0] == "cast":
        x = x[1]
    if x[0] == "field" and x[2] == "(tuple)" and x[3] == "1" and x[1][0] == "payload" and x[1][1][0] == "call" and \
            core.callee_base(x[1][1][1]) == ITER_NEXT:
        return x[1][1][3], mask
    return None, mask


RFC3629 = {1: [(None, 0)], 2: [(0x1F, 6), (0x3F, 0)], 3: [(0x0F, 12), (0x3F, 6), (0x3F, 0)], 4: [(0x07, 18), (0x3F, 12), (0x3F, 6), (0x3F, 0)]}
THRESH = [0x80, 0xE0, 0xF0]


# lead bytes of well-formed UTF-8 (RFC 3629 / Unicode table 3-7) and the length of the sequence they start
VALID_LEADS = [(v, 1) for v in range(0x00, 0x80)] + [(v, 2) for v in range(0xC2, 0xE0)] + [(v, 3) for v in range(0xE0, 0xF0)] + \
              [(v, 4) for v in range(0xF0, 0xF5)]


def _dec_table(lib, b, S, pulls):
    """DEC as a decision table, independent of how the decoder is written (nested ifs, a match on ranges, a width helper, ...):
    for every valid lead byte v the body is specialised to `first byte == v` (all comparisons of the first byte with constants
    are decided; the residual body is straight-line); on that residual exactly width(v) pulls are reached, the end offset is the
    index of the last byte pulled + 1 and the code point, evaluated bit by bit with the continuation bytes symbolic, is the RFC 3629
    assembly.  Returns (verdict, text): verdict in ok / mismatch / unknown."""
    from . import cond, bits
    root = S.root
    psite = {s["bb"]: (b.path, s["bb"]) for s in pulls}

    def byte_of(t):
        """pull site whose byte (item.1) the term denotes"""
        if t[0] == "field" and t[3] == "1" and t[1][0] == "payload" and t[1][1][0] == "call" and t[1][1][3] in psite.values():
            return t[1][1][3]
        return None
    # the first byte: the pull that dominates all others
    doms = [s for s in pulls if all(b.dominates(s["bb"], o["bb"]) for o in pulls)]
    if len(doms) != 1:
        return "unknown", "no single first pull"
    s0 = psite[doms[0]["bb"]]

    def atoms_for(v):
        return cond.pin_atoms(lambda t: byte_of(t) == s0, v)
    cache = {}
    done = 0
    for v, w in VALID_LEADS:
        r = cond.specialise(lib, root, atoms_for(v), cache=cache)
        if r is None:
            return "unknown", "exploration budget exhausted for lead byte 0x%02x" % v
        fv, vis = r
        rb = fv.root.body
        got = [s for s in pulls if s["bb"] in vis and s["bb"] in rb.live_blocks()]
        # order along the (straight-line) residual
        got.sort(key=lambda s: len(rb.reach(s["bb"])), reverse=True)
        if any(rb.in_cycle(s["bb"]) for s in got):
            return "unknown", "a pull inside a loop (lead byte 0x%02x)" % v
        if len(got) != w:
            return "mismatch", "lead byte 0x%02x starts a %d-byte sequence but %d byte(s) are pulled" % (v, w, len(got))
        rets = [x for x in members(pnorm(fv.root.ret())) if x[0] == "agg" and x[2] == "Some"]
        if len(rets) != 1:
            return "unknown", "lead byte 0x%02x: %d different Some results remain after specialisation" % (v, len(rets))
        tup = dict(rets[0][3]).get("0")
        if tup is None or tup[0] != "tuple" or len(tup[1]) != 2:
            return "unknown", "lead byte 0x%02x: result is not a pair" % v
        end, ch = tup[1]
        last = F(P(C(anykey, ANY, site=psite[got[-1]["bb"]])), "0", "(tuple)")
        first_i = F(P(C(anykey, ANY, site=psite[got[0]["bb"]])), "0", "(tuple)")
        # (index of the last byte pulled) + 1, or (index of the lead byte) + width: the source numbers bytes consecutively
        # (clause enumerate-from-zero: `inner` is `enumerate()` over the raw byte source)
        if not (m(B("Add", last, K(1)), end) or m(B("Add", first_i, K(w)), end)):
            return "mismatch", "lead byte 0x%02x: the end offset must be (index of byte %d) + 1; found %s" % (v, w, show(end))
        code = ch
        for _ in range(3):
            if code[0] == "call" and isinstance(code[1], str) and code[1].endswith("from_u32_unchecked") and len(code[2]) == 1:
                code = code[2][0]
            elif code[0] == "cast" and code[3] == "char":
                code = code[1]
        order = {psite[s["bb"]]: k for k, s in enumerate(got)}

        def env(t):
            site = byte_of(t)
            if site is None:
                return None
            k = order.get(site)
            if k is None:
                raise bits.Unknown()
            return bits.const_bits(v, 32) if k == 0 else bits.var_bits("b%d" % k, 8, 32)
        try:
            have = bits.ev(code, env, 32)
        except bits.Unknown:
            return "unknown", "lead byte 0x%02x: code point expression %s not evaluable bit by bit" % (v, show(code)[:200])
        want = [bits.ZERO] * 32
        if w == 1:
            want = bits.const_bits(v, 32)
        else:
            lead_bits = {2: 5, 3: 4, 4: 3}[w]
            for k in range(1, w):
                sh = 6 * (w - 1 - k)
                for q in range(6):
                    want[sh + q] = frozenset({("b%d" % k, q)})
            hv = (v & ((1 << lead_bits) - 1)) << (6 * (w - 1))
            for q in range(32):
                if (hv >> q) & 1:
                    want[q] = bits.ONE
        if have != want:
            return "mismatch", "lead byte 0x%02x: the code point of a %d-byte sequence is not assembled as in RFC 3629: %s" % (v, w, show(code)[:300])
        done += 1
    return "ok", "%d valid lead bytes, %d residual bodies" % (done, len(cache))


def _dec_common(ctx, lib, b, S, pulls):
    """the clauses of DEC that do not depend on how the width dispatch is written"""
    root = S.root
    psites = [(b.path, s["bb"]) for s in pulls]
    # the first pull is `?`-propagated (end of input -> None), the others are the continuation bytes
    sw0 = switches_on(root, lambda d: d[0] == "discr" and d[1][0] == "call" and core.callee_base(d[1][1]) == "core::ops::Try::branch"
                      and d[1][2][0][0] == "call" and d[1][2][0][3] == psites[0])
    ctx.check(len(sw0) == 1, "DEC", b, "end-of-input-none", b.span, "an exhausted source must end the iteration (first pull propagated with `?`)")
    # the decoder never gives up early and never looks at its source other than by pulling: every None exit is the
    # exhausted first pull, and `next` is the only thing called on self.inner
    others = [s["key"] for s in S.calls if s["args"] and any(m(F(Par(1), "inner"), a) for a in s["args"])
              and core.callee_base(s["key"]) != ITER_NEXT and core.callee_base(s["key"]) not in core.IDENTITY_KEYS]
    ctx.check(not others, "DEC", b, "source-only-pulled", b.span,
              "the decoder may only pull from its source (no size_hint/peek/len: the result must not depend on what the source "
              "claims about its remaining length); found %s" % others)
    if len(sw0) == 1:
        brk = [tb for val, tb in sw0[0][1]["targets"] if val == 1] or [sw0[0][1]["otherwise"]]
        nones = [bi for bi, si, st in b.stmts() if st["k"] == "assign" and st["lhs"]["local"] == 0 and not st["lhs"]["proj"] and
                 st["rv"]["k"] == "aggregate" and st["rv"].get("variant") == "None"]
        resid = [s["bb"] for s in S.calls if core.callee_base(s["key"]) == "core::ops::FromResidual::from_residual" and s["tj"]["dest"]["local"] == 0]
        ctx.check(all(b.edge_guards((sw0[0][0], brk[0]), x) for x in nones + resid) and bool(nones + resid), "DEC", b, "none-only-when-exhausted", b.span,
                  "the decoder returns None only when the source is exhausted at a character boundary")
    # the returned char comes from that code through from_u32_unchecked only
    fu = S.keyed(lambda k: k.endswith("from_u32_unchecked") or k.endswith("char::from_u32"))
    ctx.check(len(fu) == 1, "DEC", b, "single-char-construction", b.span, "one char construction from the assembled code point")
    # the decoder's source is the enumerate created in the constructor
    cb = lib.one_body(adt=DECODER, name="new")
    if cb is not None:
        CS, lits = _ctor_literal(lib, cb, DECODER)
        okc = len(lits) == 1 and m(C("core::iter::Iterator::enumerate", Par(1)), dict(lits[0][3]).get("inner", ("undef",)))
        ctx.check(okc, "DEC", cb, "enumerate-from-zero", cb.span, "byte indices must come from enumerate() over the raw source, created once")
        f = lib.fns.get(cb.path)
        ctx.check(f is not None and f["unsafe"], "SAFE-API", cb, "decoder-ctor-unsafe", cb.span,
                  "CharWithEndOffsetIterator::new must stay `unsafe` (its caller vouches for valid UTF-8)")


def rule_dec(ctx, R):
    lib = ctx.lib
    nb = lib.find_bodies(adt=DECODER, trait="core::iter::Iterator", name="next")
    if len(nb) != 1:
        ctx.missing("DEC", "Iterator::next of " + DECODER)
        return
    b = nb[0]
    S = Sites(lib, b)
    root = S.root
    # accepted alternative: delegation to core::str decoding
    if any(s["key"].startswith("core::str::") and ("next_code_point" in s["key"] or "chars" in s["key"] or "from_utf8" in s["key"]) for s in S.calls):
        ctx.ok("DEC", b, "delegates-to-core", b.span, "decoding is delegated to core::str")
        return
    pulls = [s for s in S.keyed(lambda k: core.callee_base(k) == ITER_NEXT) if m(F(Par(1), "inner"), s["args"][0])]
    pulls = sorted(pulls, key=lambda s: len(b.dominators().get(s["bb"], ())))
    verdict, text = _dec_table(lib, b, S, pulls)
    ctx.note("dec_table", [verdict, text])
    ctx.check(verdict != "mismatch", "DEC", b, "decision-table", b.span,
              "for every valid UTF-8 lead byte the decoder pulls exactly the bytes of that sequence and assembles (end offset, code point) as "
              "in RFC 3629; " + text)
    table = verdict == "ok"
    nested = len(pulls) == 4 and all(b.dominates(pulls[i]["bb"], pulls[i + 1]["bb"]) for i in range(len(pulls) - 1))
    # the syntactic clauses below (nested-if form) are an alternative to the table: they decide when the table is inconclusive
    ctx.check(table or nested, "DEC", b, "four-nested-pulls", b.span,
              "the decoder pulls at most four bytes, each later pull only after the earlier ones; found %d pull sites (decision table: %s)"
              % (len(pulls), text))
    if table or not nested:
        # the table decides: it is exact on the valid lead bytes (e.g. `first & 0x3f` for `first & 0x1f` in the two-byte arm is the
        # same function there, because bit 5 of 0xC2..0xDF is clear), which the mask-by-mask clauses below are not
        if table:
            _dec_common(ctx, lib, b, S, pulls)
        return
    psites = [(b.path, s["bb"]) for s in pulls]
    _dec_common(ctx, lib, b, S, pulls)
    first = F(P(C(anykey, ANY, site=psites[0])), "1", "(tuple)")
    # threshold guards on the first byte, normalised to `first < c`
    guards = {}
    for sbi, stj, d in switches_on(root, lambda d: d[0] == "bin" and d[1] in ("Lt", "Le", "Ge", "Gt")):
        l, r, op = d[2], d[3], d[1]
        if m(first, l) and r[0] == "const":
            c = r[1]
            tt, ff = bool_arms(stj)
            if op == "Lt":
                guards[c] = (sbi, tt, ff)
            elif op == "Le":
                guards[c + 1] = (sbi, tt, ff)
            elif op == "Ge":
                guards[c] = (sbi, ff, tt)
            elif op == "Gt":
                guards[c + 1] = (sbi, ff, tt)
    ctx.check(sorted(guards) == THRESH, "DEC", b, "width-thresholds", b.span,
              "the width of a sequence is decided by first < 0x80 / 0xE0 / 0xF0; thresholds found: %s" % [hex(c) for c in sorted(guards)])
    if sorted(guards) != THRESH:
        return
    # the four result sites: (end, code) tuples
    sites = []
    for bi, si, st in b.stmts():
        if st["k"] == "assign" and st["rv"]["k"] == "aggregate" and st["rv"].get("akind") == "tuple" and len(st["rv"]["ops"]) == 2 \
                and st["lhs"]["ty"] in ("(usize, u32)",):
            t = pnorm(root.T.rvalue(st["rv"]))
            sites.append((bi, si, t[1][0], t[1][1]))
    ctx.check(len(sites) == 4, "DEC", b, "four-result-sites", b.span, "four (end offset, code point) results expected, one per width; found %d" % len(sites))
    # the `+ 1` of the end offset may be applied in each branch or once after them (hoisted): look at what is returned
    plus_after = False
    rt_ = pnorm(root.ret())
    for x_ in members(rt_):
        if x_[0] == "agg" and x_[2] == "Some":
            tup_ = dict(x_[3]).get("0")
            if tup_ is not None and tup_[0] == "tuple" and len(tup_[1]) == 2:
                e_ = tup_[1][0]
                if e_[0] in ("bin", "ovf") and e_[1] == "Add" and (is_const(e_[2], 1) or is_const(e_[3], 1)):
                    inner_ = e_[3] if is_const(e_[2], 1) else e_[2]
                    site_ends = core.mk_phi([s_[2] for s_ in sites]) if sites else ("undef",)
                    plus_after = core.same(inner_, site_ends)
    seen_w = set()
    for bi, si, end, code in sites:
        # width = number of pulls dominating the site
        w = sum(1 for s in pulls if b.dominates(s["bb"], bi))
        seen_w.add(w)
        loc = b.loc(bi, si)
        # guards: true arm of threshold w (if w<4), false arms of all smaller thresholds
        okg = True
        for i, c in enumerate(THRESH):
            sbi, tt, ff = guards[c]
            if i + 1 < w:
                okg = okg and b.edge_guards((sbi, ff), bi)
            elif i + 1 == w:
                okg = okg and b.edge_guards((sbi, tt), bi)
        ctx.check(okg, "DEC", b, "width-%d-guards" % w, loc, "the %d-byte result must be selected exactly by the first-byte thresholds" % w)
        # code point placement
        parts = _flatten_or(code)
        got = []
        okp = True
        for op, sh in parts:
            site, mask = _masked_byte(op)
            if site is None or site not in psites:
                okp = False
                continue
            got.append((psites.index(site), mask, sh))
        got.sort()
        wantp = [(i, mk, sh) for i, (mk, sh) in enumerate(RFC3629.get(w, []))]
        if w == 1 and got and got[0][1] in (None, 0x7F):
            got = [(0, None, 0)]
        ctx.check(okp and got == wantp, "DEC", b, "width-%d-placement" % w, loc,
                  "the %d-byte code point must be assembled as in RFC 3629 %s; found %s from %s"
                  % (w, [(i, hex(mk) if mk else None, sh) for i, mk, sh in wantp], [(i, hex(mk) if mk else None, sh) for i, mk, sh in got], show(code)), show(code))
        # end offset = index of the last pulled byte + 1
        last = F(P(C(anykey, ANY, site=psites[w - 1])), "0", "(tuple)") if 1 <= w <= 4 else ANY
        ctx.check(m(last, end) if plus_after else m(B("Add", last, K(1)), end), "DEC", b, "width-%d-end" % w, loc,
                  "the end offset of a %d-byte character is (index of its last byte) + 1; found %s" % (w, show(end)), show(end))
    ctx.check(seen_w == {1, 2, 3, 4}, "DEC", b, "all-widths", b.span, "results for widths 1..4 expected; found %s" % sorted(seen_w))
    # continuation pulls happen only when the width demands them
    for i in (1, 2, 3):
        sbi, tt, ff = guards[THRESH[i - 1]]
        ctx.check(b.edge_guards((sbi, ff), pulls[i]["bb"]), "DEC", b, "pull-%d-only-if-needed" % (i + 1), b.loc(pulls[i]["bb"]),
                  "byte %d is pulled only for sequences longer than %d bytes (laziness; unwrap_unchecked relies on valid UTF-8)" % (i + 1, i))


# ----------------------------------------------------------------------------- SAFE-API / ENC / SAFE-INV / UTF8-CTOR

def rule_safe_api(ctx, R):
    lib = ctx.lib
    for v in R.variants():
        if not v.ok:
            continue
        # transition/child functions: unsafe and not public
        for p, b in v.unsafe_A.items():
            f = lib.fns.get(p)
            ctx.check(f is not None and f["unsafe"] and f["vis"] != "pub", "SAFE-API", b, "transition-private-unsafe:" + b.name, b.span,
                      "%s must be an `unsafe fn` that is not public (its state argument is trusted)" % b.name)
        de = lib.one_body(adt=v.A, name="deserialize_unchecked")
        if de is None:
            ctx.missing("SAFE-API", v.A + "::deserialize_unchecked")
        else:
            f = lib.fns.get(de.path)
            ctx.check(f["unsafe"], "SAFE-API", de, "deserialize-unsafe:" + v.tag, de.span, "deserialize_unchecked must stay `unsafe`")
        if v.tag == "cw":
            for meth, twin, kind in SEARCH_METHODS:
                if twin and twin in v.methods:
                    f = lib.fns.get(v.methods[twin].path)
                    ctx.check(f["unsafe"], "SAFE-API", v.methods[twin], "cw-from-iter-unsafe:" + twin, v.methods[twin].span,
                              "char-wise %s takes raw bytes that must be valid UTF-8 and must stay `unsafe`" % twin)
        # ENC: all fields of A, S, O (and CodeMapper) private
        types = [v.A, v.S, v.O] + (["charwise::mapper::CodeMapper"] if v.tag == "cw" else [])
        for t in types:
            for fd in lib.adts[t]["variants"][0]["fields"]:
                ctx.check(fd["vis"] != "pub", "ENC", t, "private-field:" + fd["name"], lib.adts[t]["span"],
                          "%s.%s must not be public (safe code could break the table invariants)" % (t, fd["name"]))
        # iterators' automaton reference / state fields are not public outside the crate
        for kind, I in v.iters.items():
            for fd in lib.adts[I]["variants"][0]["fields"]:
                ctx.check(fd["vis"] != "pub", "ENC", I, "private-field:" + fd["name"], lib.adts[I]["span"],
                          "%s.%s must not be `pub` (a caller could set state_id/output_pos to an out-of-range value)" % (I, fd["name"]))
        # no safe pub fn hands out &mut into the tables or constructs A except builders / deserialise
        allowed_ctor = {"build", "build_with_values", "new", "with_values", "clone", "deserialize_unchecked"}
        for f in lib.j["fns"]:
            out = f["output"]
            mentions = any(x["k"] == "adt" and x["path"] == v.A for x in _walk_tyj(out))
            mut_out = any(x["k"] == "ref" and x["mut"] and any(y["k"] == "adt" and y["path"] in types for y in _walk_tyj(x["to"])) for x in _walk_tyj(out))
            if mut_out and f["vis"] == "pub":
                ctx.bad("ENC", f["path"], "mut-ref-out:" + f["name"], f["span"], "a public function returns &mut into automaton tables")
            if mentions and not any(x["k"] == "ref" for x in [out]) and f["vis"] == "pub" and f["name"] not in allowed_ctor:
                owned = out["k"] == "adt" and (out["path"] == v.A or any(a.get("path") == v.A for a in out.get("args", [])))
                if owned or (out["k"] == "tuple" and any(e.get("path") == v.A for e in out.get("elems", []))):
                    ctx.bad("ENC", f["path"], "unexpected-constructor:" + f["name"], f["span"],
                            "only the builders, clone and the unsafe deserialiser may produce an automaton")
    ctx.ok("ENC", "daachorse", "scanned", "", "field visibilities and public signatures scanned")


def _walk_tyj(tj):
    yield tj
    for a in tj.get("args", []):
        yield from _walk_tyj(a)
    for k in ("to", "of"):
        if k in tj:
            yield from _walk_tyj(tj[k])
    for a in tj.get("elems", []):
        yield from _walk_tyj(a)


def rule_safe_inv(ctx, R):
    """SAFE-INV: every unsafe operation of the library (call of an unsafe fn, raw deref) is classified
    into a sink kind that some rule covers; anything else is `unjustified-unsafe`."""
    lib = ctx.lib
    covered = {}
    n = 0
    trans = set()
    for v in R.variants():
        if v.ok:
            trans |= set(v.unsafe_A)
    for b in lib.bodies.values():
        if "::tests::" in b.path or "::tests" == b.path[-7:]:
            continue
        for bi, c, t in b.calls():
            if not c.unsafe or t.get("exp"):
                continue
            n += 1
            key = core.callee_base(c.key)
            owner = b
            owner = lib.owner_of(owner)
            kind = None
            if key == GET_UNCHECKED:
                kind = "table-index (SAFE-IDX-S/O)"
                # must be inside a next body or an unsafe fn of A
                inside = owner.j.get("impl_trait") == "core::iter::Iterator" or owner.path in trans
                if not inside:
                    kind = None
            elif key == STR_GET_UNCHECKED:
                kind = "str-suffix (SAFE-STR)"
                if not (owner.j.get("impl_trait") == "core::iter::Iterator" and "Lestmost" in (owner.j.get("impl_adt") or "") or owner.j.get("impl_trait") == "core::iter::Iterator"):
                    kind = None
            elif c.body_path in trans:
                kind = "transition-call (SAFE-PARAM)"
            elif key in ("core::option::Option::unwrap_unchecked",) and owner.j.get("impl_adt") == DECODER:
                kind = "decoder-continuation (DEC)"
            elif key.endswith("from_u32_unchecked") and owner.j.get("impl_adt") == DECODER:
                kind = "decoder-char (DEC)"
            elif key in ("core::result::Result::unwrap_unchecked",) and owner.j.get("impl_trait") == "utils::FromU32":
                kind = "u32->usize (pointer width >= 32, compile_error otherwise)"
            elif c.adt == DECODER and c.name == "new":
                kind = "decoder-ctor (SAFE-UTF8-CTOR)"
            if kind is None:
                ctx.bad("SAFE-INV", b, "unjustified-unsafe:" + c.name, b.loc(bi),
                        "unsafe operation %s in %s is not covered by any safety rule" % (c.key, b.key))
            else:
                covered[kind] = covered.get(kind, 0) + 1
        # raw pointer derefs outside expansions are reported by PURE-FREEZE
    ctx.note("unsafe_sites", n)
    ctx.note("unsafe_sites_by_kind", covered)
    ctx.check(n >= 1, "SAFE-INV", "daachorse", "inventory-nonempty", "", "no unsafe call sites found at all (extraction problem?)")
    for k, cnt in sorted(covered.items()):
        ctx.ok("SAFE-INV", "daachorse", "covered:" + k, "", "%d site(s)" % cnt)
    # FromU32: the width argument
    ctx.check(lib.j["pointer_bits"] >= 32, "SAFE-INV", "utils::FromU32", "pointer-width", "", "usize must hold every u32")
    # unsafe impls / unsafe trait impls in the crate: none expected (derives excluded)
    bad = [i["path"] for i in lib.impls if i["trait"] in ("core::marker::Send", "core::marker::Sync")]
    ctx.check(not bad, "SAFE-INV", "daachorse", "no-manual-send-sync", "", "no hand-written Send/Sync impls; found %s" % bad)


def rule_safe_asref(ctx, R):
    """SAFE-ASREF (C07, last sentence: "safe callers cannot trigger memory unsafety through any safe API").
    `AsRef::as_ref` of the caller's haystack type is safe code the caller writes; nothing obliges two calls to return the same
    slice (interior mutability is enough).  An unsafe operation is therefore unsound when its precondition was established on the
    result of ONE `as_ref()` call and it is applied to the result of ANOTHER:
      (a) an unchecked index into `self.<haystack>.as_ref()` with an index kept in the iterator across `next()` calls;
      (b) the unchecked UTF-8 decoder fed, from a safe entry point, by an adapter that calls `as_ref()` again for every byte
          (the bytes of two different strings spliced together need not be UTF-8)."""
    lib = ctx.lib
    for v in R.variants():
        if not v.ok:
            continue
        # (a) iterators' next bodies
        for kind, nb in v.next.items():
            I = v.iters[kind]
            gen = [f for f in lib.adts[I]["variants"][0]["fields"] if f["tyj"]["k"] == "param"]
            src_fields = {f["name"] for f in gen}
            S = Sites(lib, nb)
            asref_on_src = [s for s in S.calls if core.callee_base(s["key"]) == "core::convert::AsRef::as_ref" and s["args"] and
                            s["args"][0][0] == "field" and s["args"][0][3] in src_fields]
            for s in S.calls:
                if not s["c"].unsafe or s["tj"].get("exp"):
                    continue
                if core.callee_base(s["key"]) not in (GET_UNCHECKED, STR_GET_UNCHECKED, "core::slice::get_unchecked_mut"):
                    continue
                cont = s["args"][0]
                if cont[0] == "field" and cont[3] in src_fields and self_param(cont[1]) and asref_on_src:
                    idx = s["args"][1]
                    persistent = any(x[0] == "field" and self_param(x[1]) and x[3] not in src_fields for x in walk(idx))
                    ctx.check(not persistent, "SAFE-ASREF", nb, "unchecked-index-into-fresh-as_ref:%s:%s" % (v.tag, kind), nb.loc(s["bb"]),
                              "`%s.as_ref()` is indexed without a check at an offset kept from earlier calls (%s): sound only if the "
                              "haystack's AsRef impl returns the same slice every time, which safe code need not do"
                              % (cont[3], show(idx)), show(idx))
        # (b) safe entry points that hand an as_ref-per-byte adapter to the unchecked decoder
        ad = ADAPTERS[v.tag]
        anb = lib.find_bodies(adt=ad, trait="core::iter::Iterator", name="next")
        per_byte = False
        if len(anb) == 1:
            AS = Sites(lib, anb[0])
            per_byte = any(core.callee_base(s["key"]) == "core::convert::AsRef::as_ref" for s in AS.calls)
        for name, b in sorted(v.methods.items()):
            f = lib.fns.get(b.path)
            if f is None or f["unsafe"]:
                continue
            S = Sites(lib, b)
            for s in S.calls:
                if s["c"].adt == DECODER and s["name"] == "new" and s["vw"] is S.root:
                    arg = s["args"][0]
                    fed_by_adapter = arg[0] == "call" and isinstance(arg[1], str) and arg[1].split("@")[0] == ad + "::new"
                    ctx.check(not (fed_by_adapter and per_byte), "SAFE-ASREF", anb[0] if anb else b, "utf8-validity-across-as_ref-calls:%s" % name,
                              b.loc(s["bb"]),
                              "safe entry point %s feeds the unchecked UTF-8 decoder (unwrap_unchecked on continuation bytes, "
                              "char::from_u32_unchecked) from %s, whose next() calls the haystack's as_ref() again for every byte: "
                              "with an AsRef<str> impl that returns different strings the byte stream is not UTF-8" % (name, ad))


def rule_utf8_ctor(ctx, R):
    lib = ctx.lib
    n = 0
    for b in lib.bodies.values():
        if "::tests::" in b.path:
            continue
        S = None
        for bi, c, t in b.calls():
            if c.adt == DECODER and c.name == "new":
                n += 1
                if S is None:
                    S = Sites(lib, b)
                s = [x for x in S.calls if x["bb"] == bi and x["vw"].body is b][0]
                arg = s["args"][0]
                f = lib.fns.get(b.path)
                if f and f["unsafe"]:
                    ok = arg[0] == "param"
                    ctx.check(ok, "SAFE-UTF8-CTOR", b, "forwards-own-param", b.loc(bi),
                              "an unsafe entry point must forward its own haystack parameter (the caller's UTF-8 promise) to the decoder; found %s" % show(arg))
                else:
                    ok = m(C(ADAPTERS["cw"] + "::new", lambda t, e: t[0] == "param"), arg)
                    preds = f["generics"]["preds"] if f else []
                    okb = any(p.endswith("core::convert::AsRef<str>") for p in preds)
                    ctx.check(ok and okb, "SAFE-UTF8-CTOR", b, "safe-entry-feeds-str", b.loc(bi),
                              "a safe entry point may feed the decoder only StrIterator::new(h) with h: AsRef<str>; found %s" % show(arg))
    ctx.check(n >= 6, "SAFE-UTF8-CTOR", "daachorse", "ctor-sites-seen", "", "expected the 6 decoder constructor call sites; saw %d" % n)
