"""Guard evaluation under assumptions: constant propagation of boolean locals along CFG paths.

A guard rule of the form "when idx == DEAD the slot is stamped" / "a used slot is never overwritten" must not depend on the
source form of the condition (`a || b || !c`, `let r = a || b; if !r && c { continue }`, nested ifs, a match, De Morgan).
`explore` answers: *assuming* these atomic conditions have these truth values, which blocks can execution reach from `starts`
before it hits a `stop` block?  Atoms are predicates over provenance terms (e.g. `Eq(idx, 1)`, the result of one call site).

Mechanics: depth-first over (block, environment) where the environment maps plain boolean locals to a known truth value.
  assign  L := const / copy M / !M / a==b / a&b / a|b   -> evaluated (three-valued); unknown drops L
  call    L := f(..)                                    -> the call term is offered to the atoms
  switch  on a known local / evaluable term             -> only the matching arm is followed; otherwise all arms
Cleanup edges are never followed (Body.succ).  This is an abstract interpretation of the MIR, no code is run."""
from . import core


def canon_adt(p):
    return core.canon(p) if p else p


def _tv_not(x):
    return None if x is None else (not x)


class Explorer:
    def __init__(self, view, atoms, some_atoms=(), equalities=()):
        self.view = view
        self.b = view.body
        self.atoms = atoms
        self.some_atoms = list(some_atoms)      # (term predicate, bool): the Option/Result term is Some/Ok (True) or None/Err
        self.equalities = list(equalities)      # (term predicate, constant term): the assumptions pin such a term to that value
        self.taken = set()                      # CFG edges followed by run()

    def is_some_term(self, x, depth=0):
        """three-valued: the option-like term x is Some/Ok"""
        if depth > 8:
            return None
        for pred, val in self.some_atoms:
            if pred(x):
                return val
        if x[0] == "call" and isinstance(x[1], str) and x[2] and core.callee_base(x[1]) in (
                "core::result::Result::map_err", "core::result::Result::map", "core::option::Option::map", "core::option::Option::ok_or_else",
                "core::option::Option::ok_or", "core::result::Result::ok", "core::option::Option::copied", "core::option::Option::cloned"):
            # these keep Some/Ok-ness of their receiver
            return self.is_some_term(x[2][0], depth + 1)
        if x[0] == "call" and isinstance(x[1], str) and len(x[2]) == 2 and core.callee_base(x[1]) in ("core::bool::then", "core::bool::then_some"):
            # c.then(f) / c.then_some(v) is Some exactly when c holds
            return self.eval_term(x[2][0], depth + 1)
        if x[0] == "agg" and x[2] in ("Some", "Ok"):
            return True
        if x[0] == "agg" and x[2] in ("None", "Err"):
            return False
        if x[0] == "phi":
            vals = {self.is_some_term(y, depth + 1) for y in x[1] if y[0] != "loop"}
            if len(vals) == 1:
                return vals.pop()
        return None

    def value_of(self, t):
        """resolve option defaults under the assumptions: x.unwrap_or(d) is payload(x) when x is Some, d when None"""
        from .view import mk_payload
        if t[0] == "call" and isinstance(t[1], str) and core.callee_base(t[1]) in ("core::option::Option::unwrap_or", "core::result::Result::unwrap_or") \
                and len(t[2]) == 2:
            s = self.is_some_term(t[2][0])
            if s is True:
                return mk_payload(t[2][0])
            if s is False:
                return t[2][1]
        for pred, c in self.equalities:
            if pred(t):
                return c
        return t

    def eval_term(self, t, depth=0):
        if depth > 12:
            return None
        k = t[0]
        if k == "const" and t[2] == "bool":
            v = t[1]
            if isinstance(v, bool):
                return v
            if isinstance(v, int):
                return v != 0
            if isinstance(v, str):
                return {"true": True, "false": False}.get(v)
        for pred, val in self.atoms:
            if pred(t):
                return val
        if k == "call" and isinstance(t[1], str) and len(t[2]) == 1 and self.some_atoms:
            base = core.callee_base(t[1])
            if base in ("core::option::Option::is_some", "core::result::Result::is_ok"):
                return self.is_some_term(t[2][0])
            if base in ("core::option::Option::is_none", "core::result::Result::is_err"):
                return _tv_not(self.is_some_term(t[2][0]))
        if k == "un" and t[1] == "Not":
            return _tv_not(self.eval_term(t[2], depth + 1))
        if k == "bin" and t[1] in ("BitAnd", "BitOr"):
            a = self.eval_term(t[2], depth + 1)
            b = self.eval_term(t[3], depth + 1)
            if t[1] == "BitAnd":
                if a is False or b is False:
                    return False
                if a is True and b is True:
                    return True
            else:
                if a is True or b is True:
                    return True
                if a is False and b is False:
                    return False
            return None
        if k == "bin" and t[1] in ("Eq", "Ne"):
            # negated atom: Ne(a,b) when an atom decides Eq(a,b) (and vice versa)
            other = ("bin", "Ne" if t[1] == "Eq" else "Eq", t[2], t[3])
            for pred, val in self.atoms:
                if pred(other):
                    return not val
            a = self.eval_term(t[2], depth + 1)
            b = self.eval_term(t[3], depth + 1)
            if a is not None and b is not None:
                return (a == b) if t[1] == "Eq" else (a != b)
            # comparison of a boolean with a constant
            for x, c in ((t[2], t[3]), (t[3], t[2])):
                if c[0] == "const" and c[2] == "bool":
                    cv = self.eval_term(c, depth + 1)
                    xv = self.eval_term(x, depth + 1)
                    if cv is not None and xv is not None:
                        return (xv == cv) if t[1] == "Eq" else (xv != cv)
        if k == "phi":
            vals = {self.eval_term(x, depth + 1) for x in t[1] if x[0] != "loop"}
            if len(vals) == 1:
                return vals.pop()
        return None

    def _op_local(self, o):
        if o["k"] in ("copy", "move") and not o["place"]["proj"]:
            return o["place"]["local"]
        return None

    def eval_operand(self, o, env):
        l = self._op_local(o)
        if l is not None and l in env:
            return env[l]
        return self.eval_term(self.view.op(o))

    VARIANT_DISCR = {"None": 0, "Some": 1, "Ok": 0, "Err": 1, "Continue": 0, "Break": 1}

    def eval_rvalue(self, rv, env):
        k = rv["k"]
        if k == "use":
            return self.eval_operand(rv["op"], env)
        # Option / Result / ControlFlow values of plain locals are tracked by variant along the path (`Err(e)` built in one arm
        # and tested by `?` after the join is not confused with the `Ok` of the other arm)
        if k == "aggregate" and rv.get("akind") == "adt" and rv.get("variant") in ("None", "Some", "Ok", "Err") and \
                canon_adt(rv.get("adt")) in ("core::option::Option", "core::result::Result"):
            return ("variant", rv["variant"])
        if k == "discr" and not rv["place"]["proj"]:
            x = env.get(rv["place"]["local"])
            if isinstance(x, tuple) and x[0] == "variant":
                return self.VARIANT_DISCR[x[1]]
        if k == "unop" and rv["op"] == "Not":
            l = self._op_local(rv["x"])
            if l is not None and l in env and not isinstance(env[l], tuple):
                return not env[l]
        if k == "binop" and rv["op"] in ("BitAnd", "BitOr", "Eq", "Ne"):
            a = self.eval_operand(rv["l"], env)
            b = self.eval_operand(rv["r"], env)
            if rv["op"] == "BitAnd":
                if a is False or b is False:
                    return False
                if a is True and b is True:
                    return True
            elif rv["op"] == "BitOr":
                if a is True or b is True:
                    return True
                if a is False and b is False:
                    return False
            elif a is not None and b is not None:
                # both operands are booleans with known values (eval_* only ever yields values for boolean terms)
                return (a == b) if rv["op"] == "Eq" else (a != b)
        from .view import pnorm
        return self.eval_term(pnorm(self.view.T.rvalue(rv)))

    def run(self, starts, stop=(), env0=None):
        """blocks reachable from `starts` under the assumptions; `stop` blocks are entered (reported) but not left"""
        b = self.b
        stop = set(stop)
        seen = set()
        visited = set()
        work = [(s, frozenset((env0 or {}).items())) for s in starts]
        budget = 200000
        count = {}
        joined = {}
        while work and budget > 0:
            budget -= 1
            bi, fenv = work.pop()
            if (bi, fenv) in seen:
                continue
            seen.add((bi, fenv))
            # widening: a block reached with many different environments (drop flags and other incidental booleans multiply
            # the path-sensitive states) continues with the facts all of them agree on; sound (fewer facts = more paths)
            c_ = count.get(bi, 0) + 1
            count[bi] = c_
            if c_ > 6:
                j = joined.get(bi)
                if j is None:
                    j = fenv
                else:
                    j = j & fenv
                    if j == joined[bi] and c_ > 7:
                        continue
                joined[bi] = j
                fenv = j
            visited.add(bi)
            if bi in stop:
                continue
            env = dict(fenv)
            blk = b.blocks[bi]
            for st in blk["stmts"]:
                if st["k"] != "assign":
                    continue
                lhs = st["lhs"]
                if lhs["proj"]:
                    continue
                v = self.eval_rvalue(st["rv"], env)
                if v is None:
                    env.pop(lhs["local"], None)
                else:
                    env[lhs["local"]] = v
            t = blk["term"]
            succ = list(b.succ(bi))
            if t["k"] == "switch":
                v = self.eval_operand(t["discr"], env)
                if isinstance(v, tuple):
                    v = None
                if v is not None:
                    want = v if (isinstance(v, int) and not isinstance(v, bool)) else (1 if v else 0)
                    tgt = None
                    for val, tb in t["targets"]:
                        if val == want:
                            tgt = tb
                    if tgt is None:
                        tgt = t["otherwise"]
                    succ = [tgt]
                elif t.get("discr_ty") not in (None, "bool"):
                    # `match x { CONST => .., _ => .. }`: each arm is the atomic condition x == CONST
                    x = self.view.op(t["discr"])
                    sm = None
                    if x[0] == "discr" and self.some_atoms:
                        y = x[1]
                        if y[0] == "call" and isinstance(y[1], str) and core.callee_base(y[1]) == "core::ops::Try::branch" and y[2]:
                            r_ = self.is_some_term(y[2][0])
                            sm = None if r_ is None else (0 if r_ else 1)       # Continue = 0, Break = 1
                        else:
                            r_ = self.is_some_term(y)
                            # Option: None = 0, Some = 1; Result: Ok = 0, Err = 1 (the type of the place whose discriminant is read)
                            dl_ = self._op_local(t["discr"])
                            ty_ = ""
                            for st_ in blk["stmts"]:
                                if st_["k"] == "assign" and st_["lhs"]["local"] == dl_ and st_["rv"]["k"] == "discr":
                                    ty_ = st_["rv"]["place"].get("ty") or ""
                            if "result::Result" in ty_:
                                sm = None if r_ is None else (0 if r_ else 1)
                            elif "option::Option" in ty_:
                                sm = None if r_ is None else (1 if r_ else 0)
                            else:
                                sm = None
                    if sm is not None:
                        tgt = None
                        for val, tb in t["targets"]:
                            if val == sm:
                                tgt = tb
                        succ = [tgt if tgt is not None else t["otherwise"]]
                    else:
                        keep = []
                        taken = None
                        for val, tb in t["targets"]:
                            r = self.eval_term(("bin", "Eq", x, ("const", val, t["discr_ty"], None)))
                            if r is True:
                                taken = tb
                            elif r is None:
                                keep.append(tb)
                        if taken is not None:
                            succ = [taken]
                        else:
                            succ = keep + [t["otherwise"]]
            elif t["k"] == "call":
                d = t.get("dest")
                if d is not None and not d["proj"]:
                    from .view import pnorm
                    v = None
                    fn_ = t["func"].get("fn") if isinstance(t.get("func"), dict) else None
                    if fn_ is not None and fn_.get("path", "").endswith("Try::branch") and len(t["args"]) == 1:
                        a_ = self._op_local(t["args"][0])
                        x_ = env.get(a_) if a_ is not None else None
                        if isinstance(x_, tuple) and x_[0] == "variant":
                            v = ("variant", "Continue" if x_[1] in ("Some", "Ok") else "Break")
                    if v is None and fn_ is not None and fn_.get("path", "").endswith("FromResidual::from_residual"):
                        # `?` on its failure path builds the Err / None of the enclosing function's type
                        ty_ = str(d.get("ty") or self.b.locals[d["local"]].get("ty") or "")
                        if "result::Result" in ty_:
                            v = ("variant", "Err")
                        elif "option::Option" in ty_:
                            v = ("variant", "None")
                    if v is None:
                        ct_ = pnorm(self.view.T.call_term(bi))
                        v = self.eval_term(ct_)
                        if v is None and self.some_atoms:
                            # an Option/Result-valued call whose Some/Ok-ness follows from the assumptions is tracked by variant
                            s_ = self.is_some_term(ct_)
                            ty_ = str(d.get("ty") or self.b.locals[d["local"]].get("ty") or "")
                            if s_ is not None:
                                if "result::Result" in ty_:
                                    v = ("variant", "Ok" if s_ else "Err")
                                elif "option::Option" in ty_:
                                    v = ("variant", "Some" if s_ else "None")
                    if v is None:
                        env.pop(d["local"], None)
                    else:
                        env[d["local"]] = v
            fe = frozenset(env.items())
            for s in succ:
                work.append((s, fe))
                self.taken.add((bi, s))
        if budget <= 0:
            return None
        return visited


def explore(view, starts, atoms, stop=(), some_atoms=()):
    return Explorer(view, atoms, some_atoms).run(starts, stop)


_CMP = {"Lt": lambda a, b: a < b, "Le": lambda a, b: a <= b, "Gt": lambda a, b: a > b, "Ge": lambda a, b: a >= b,
        "Eq": lambda a, b: a == b, "Ne": lambda a, b: a != b}


def const_value(t, depth=0):
    """the integer a constant expression denotes (literals combined by + - * and integer casts / identity conversions), else None"""
    if depth > 8:
        return None
    if t[0] == "const" and isinstance(t[1], int) and not isinstance(t[1], bool):
        return t[1]
    if t[0] in ("bin", "ovf") and t[1] in ("Add", "Sub", "Mul"):
        a, b = const_value(t[2], depth + 1), const_value(t[3], depth + 1)
        if a is None or b is None:
            return None
        return a + b if t[1] == "Add" else (a - b if t[1] == "Sub" else a * b)
    if t[0] == "field" and t[3] == "0" and t[1][0] == "ovf":
        return const_value(t[1], depth + 1)
    if t[0] == "cast":
        return const_value(t[1], depth + 1)
    return None


def pin_atoms(is_x, v):
    """atoms for the assumption `x == v` (x: any term accepted by is_x, v: an integer): every comparison of x with an integer
    constant expression is decided"""
    def val(t):
        if t[0] == "bin" and t[1] in _CMP:
            if is_x(t[2]):
                c = const_value(t[3])
                if c is not None:
                    return _CMP[t[1]](v, c)
            if is_x(t[3]):
                c = const_value(t[2])
                if c is not None:
                    return _CMP[t[1]](c, v)
        return None
    return [(lambda t: val(t) is True, True), (lambda t: val(t) is False, False)]


def specialise(crate, view, atoms, some_atoms=(), cache=None):
    """the function specialised to the assumptions: a copy of the body in which every branch the assumptions decide is replaced by
    a jump to the arm taken (the other arms become unreachable, so definitions on them no longer feed any phi).  Returns
    (FnView of the residual body, blocks visited) or None when the exploration gave up.  `cache` (a dict) shares residual bodies
    between assumption sets that take the same edges."""
    import copy
    from .view import FnView
    ex = Explorer(view, atoms, some_atoms)
    vis = ex.run([0])
    if vis is None:
        return None
    key = frozenset(ex.taken)
    if cache is not None and key in cache:
        return cache[key], vis
    j = copy.deepcopy(view.body.j)
    for bi in vis:
        t = j["blocks"][bi]["term"]
        if t["k"] != "switch":
            continue
        tk = sorted({s for (a, s) in ex.taken if a == bi})
        if len(tk) == 1:
            j["blocks"][bi]["term"] = {"k": "goto", "target": tk[0], "span": t["span"], "exp": t.get("exp", False)}
    nb = core.Body(crate, j)
    fv = FnView(crate, nb)
    if cache is not None:
        cache[key] = fv
    return fv, vis


def must_pass(view, starts, atoms, through, ends):
    """under the assumptions every path from `starts` reaches a block of `through` before any block of `ends`;
    at least one path reaches `through`"""
    vis = explore(view, starts, atoms, stop=set(through))
    if vis is None:
        return False
    return bool(vis & set(through)) and not (vis & set(ends))


def never_reaches(view, starts, atoms, target, ends):
    """under the assumptions no path from `starts` reaches `target` before a block of `ends`"""
    vis = explore(view, starts, atoms, stop=set(ends))
    if vis is None:
        return False
    return not (vis & set(target))


def _chase_local(body, op_json):
    """the plain local an operand names, followed backwards through single `L := copy/move M` definitions"""
    if op_json["k"] not in ("copy", "move") or op_json["place"]["proj"]:
        return None
    l = op_json["place"]["local"]
    for _ in range(6):
        defs = [st for bi, si, st in body.stmts() if st["k"] == "assign" and not st["lhs"]["proj"] and st["lhs"]["local"] == l]
        if len(defs) == 1 and defs[0]["rv"]["k"] == "use" and defs[0]["rv"]["op"]["k"] in ("copy", "move") and not defs[0]["rv"]["op"]["place"]["proj"]:
            l = defs[0]["rv"]["op"]["place"]["local"]
        else:
            break
    return l


def _option_defs(view, local):
    """blocks assigning Some{x} / None aggregates to `local`: ([(bb, payload term)], [bb])"""
    from .view import pnorm
    somes, nones = [], []
    for bi, si, st in view.body.stmts():
        if st["k"] == "assign" and not st["lhs"]["proj"] and st["lhs"]["local"] == local and st["rv"]["k"] == "aggregate":
            var = st["rv"].get("variant")
            if var == "Some":
                somes.append((bi, pnorm(view.T.operand(st["rv"]["ops"][0]))))
            elif var == "None":
                nones.append(bi)
    # an Option-valued call assigned as is (`if c { None } else { path.to_str() }`): the receiver form — Some(payload of the call)
    # whenever the call's result is Some
    from .view import mk_payload
    for bi in view.body.live_blocks():
        t = view.body.blocks[bi]["term"]
        if t["k"] == "call" and t.get("dest") is not None and not t["dest"]["proj"] and t["dest"]["local"] == local and \
                "option::Option" in str(t["dest"].get("ty") or view.body.locals[local].get("ty") or ""):
            somes.append((bi, pnorm(mk_payload(pnorm(view.T.call_term(bi))))))
    return somes, nones


def _cfg_some_iff(view, local, atoms, pol, payload_ok, start=0):
    somes, nones = _option_defs(view, local)
    if not somes or not nones or not all(payload_ok(x) for _, x in somes):
        return False
    yes = explore(view, [start], atoms(pol))
    no = explore(view, [start], atoms(not pol))
    if yes is None or no is None:
        return False
    sb = {bi for bi, _ in somes}
    nb = set(nones)
    return bool(yes & sb) and not (yes & nb) and bool(no & nb) and not (no & sb)


def le_terms(t, a_ok, b_ok):
    """three-valued reading of a comparison term as the proposition `a <= b` (a, b recognised by predicates):
    True when equivalent, False when equivalent to the negation `a > b`, None otherwise"""
    if t[0] == "un" and t[1] == "Not":
        r = le_terms(t[2], a_ok, b_ok)
        return None if r is None else (not r)
    if t[0] != "bin" or t[1] not in ("Le", "Lt", "Ge", "Gt"):
        return None
    op, x, y = t[1], t[2], t[3]
    if a_ok(x) and b_ok(y):
        return {"Le": True, "Gt": False}.get(op)
    if b_ok(x) and a_ok(y):
        return {"Ge": True, "Lt": False}.get(op)
    return None


def prop_atoms(reading, val):
    """atoms for a proposition given by a three-valued reading function (term -> True/False/None)"""
    return [(lambda t: reading(t) is True, val), (lambda t: reading(t) is False, not val)]


def some_iff(fv, view, t, op_json, cond_pred, pol, payload_ok, neg_pred=None):
    """the Option value `t` (held by operand `op_json` of `view`) is Some(x) with payload_ok(x) exactly when the condition
    matched by cond_pred has truth value `pol` (and, for receiver forms, the receiver is Some), None otherwise.  Accepted
    source forms:  c.then_some(x) / c.then(|| x);  o.filter(|_| c);  o.and_then(|v| if c {Some(v)} else {None}) (any arm order,
    match, negation);  if c {Some(x)} else {None} / match;  all decided by evaluating the condition under both assumptions."""
    from .view import payload as mk_pl

    def atoms(val):
        return [(cond_pred, val)] + ([(neg_pred, not val)] if neg_pred is not None else [])

    def ev(term, val):
        return Explorer(view, atoms(val)).eval_term(term)
    if t[0] == "call" and isinstance(t[1], str):
        base = core.callee_base(t[1])
        a = t[2]
        if base == "core::bool::then_some" and len(a) == 2:
            return ev(a[0], pol) is True and ev(a[0], not pol) is False and payload_ok(a[1])
        if base == "core::bool::then" and len(a) == 2 and a[1][0] == "closure":
            cr = fv.closure_ret(a[1][1])
            return cr is not None and ev(a[0], pol) is True and ev(a[0], not pol) is False and payload_ok(cr)
        if base == "core::option::Option::filter" and len(a) == 2 and a[1][0] == "closure":
            cr = fv.closure_ret(a[1][1])
            return cr is not None and ev(cr, pol) is True and ev(cr, not pol) is False and payload_ok(mk_pl(a[0]))
        if base == "core::option::Option::and_then" and len(a) == 2 and a[1][0] == "closure":
            cvs = [v for v in fv.views if v.body.path == a[1][1]]
            return len(cvs) == 1 and _cfg_some_iff(cvs[0], 0, atoms, pol, payload_ok)
        return False
    local = _chase_local(view.body, op_json) if op_json is not None else None
    if local is None:
        return False
    return _cfg_some_iff(view, local, atoms, pol, payload_ok)


# ----------------------------------------------------------------------------- finite functions by constant folding

class _Unfoldable(Exception):
    pass


def fold_fn(body, arg, adts=None, fuel=400, lib=None, depth=0):
    """Value of a small total function of one scalar/fieldless-enum parameter on the abstract input `arg`, by constant
    folding its MIR (no code is run): arg is an int, or ('variant', name, discr) for a fieldless enum.  Supported: copies,
    constants, comparisons, bit/arith ops on ints, IntToInt casts, discriminant reads, unit-variant aggregates, switches.
    Returns an int, ('variant', name) or None when the body uses anything else."""
    env = {1: arg}
    bi = 0

    def operand(o):
        if o["k"] in ("copy", "move"):
            if o["place"]["proj"]:
                raise _Unfoldable()
            l = o["place"]["local"]
            if l not in env:
                raise _Unfoldable()
            return env[l]
        if o["k"] == "const" and "bits" in o:
            return o.get("sval", o["bits"])
        raise _Unfoldable()

    def as_int(v):
        if isinstance(v, bool):
            return int(v)
        if isinstance(v, int):
            return v
        if isinstance(v, tuple) and v[0] == "variant" and len(v) == 3:
            return v[2]
        raise _Unfoldable()
    width = {"u8": 8, "u16": 16, "u32": 32, "u64": 64, "usize": 64, "i8": 8, "i16": 16, "i32": 32, "i64": 64, "isize": 64, "bool": 1}
    try:
        while fuel > 0:
            fuel -= 1
            blk = body.blocks[bi]
            for st in blk["stmts"]:
                if st["k"] != "assign":
                    continue
                if st["lhs"]["proj"]:
                    raise _Unfoldable()
                rv = st["rv"]
                k = rv["k"]
                if k == "use":
                    v = operand(rv["op"])
                elif k == "binop":
                    a, b_ = as_int(operand(rv["l"])), as_int(operand(rv["r"]))
                    op = rv["op"]
                    v = {"Eq": lambda: a == b_, "Ne": lambda: a != b_, "Lt": lambda: a < b_, "Le": lambda: a <= b_,
                         "Gt": lambda: a > b_, "Ge": lambda: a >= b_, "BitAnd": lambda: a & b_, "BitOr": lambda: a | b_,
                         "BitXor": lambda: a ^ b_, "Add": lambda: a + b_, "Sub": lambda: a - b_,
                         "Shl": lambda: a << b_, "Shr": lambda: a >> b_}.get(op)
                    if v is None:
                        raise _Unfoldable()
                    v = v()
                    if isinstance(v, bool):
                        v = int(v)
                elif k == "unop" and rv["op"] == "Not":
                    x = as_int(operand(rv["x"]))
                    v = 1 - x if st["lhs"].get("ty") == "bool" else ~x
                elif k == "cast" and rv["kind"].startswith("IntToInt"):
                    x = as_int(operand(rv["op"]))
                    w = width.get(rv["ty"])
                    if w is None:
                        raise _Unfoldable()
                    v = x & ((1 << w) - 1)
                elif k == "discr":
                    if rv["place"]["proj"]:
                        raise _Unfoldable()
                    x = env.get(rv["place"]["local"])
                    if not (isinstance(x, tuple) and x[0] == "variant" and len(x) == 3):
                        raise _Unfoldable()
                    v = x[2]
                elif k == "aggregate" and rv.get("akind") == "adt" and not rv["ops"]:
                    v = ("variant", rv["variant"])
                else:
                    raise _Unfoldable()
                env[st["lhs"]["local"]] = v
            t = blk["term"]
            if t["k"] == "return":
                r = env.get(0)
                if isinstance(r, tuple) and r[0] == "variant":
                    return ("variant", r[1])
                return r
            if t["k"] == "goto":
                bi = t["target"]
            elif t["k"] == "call" and lib is not None and depth < 4 and "fn" in t.get("func", {}) and len(t["args"]) == 1 and \
                    t.get("target") is not None and not t["dest"]["proj"]:
                # a crate-local one-argument helper (`Self::from_code(src)`): fold it too
                cal = core.Callee(t["func"]["fn"])
                cb = lib.bodies.get(cal.body_path) or getattr(lib, "helper_bodies", {}).get(cal.body_path)
                if cb is None or cb is body:
                    raise _Unfoldable()
                a0 = operand(t["args"][0])
                if isinstance(a0, tuple) and a0[0] == "variant" and len(a0) == 2:
                    raise _Unfoldable()
                r = fold_fn(cb, a0, adts, fuel, lib, depth + 1)
                if r is None:
                    raise _Unfoldable()
                env[t["dest"]["local"]] = r
                bi = t["target"]
            elif t["k"] == "switch":
                x = as_int(operand(t["discr"]))
                nxt = t["otherwise"]
                for val, tb in t["targets"]:
                    if val == x:
                        nxt = tb
                bi = nxt
            else:
                raise _Unfoldable()
    except (_Unfoldable, KeyError, IndexError):
        return None
    return None


def le_const(t, x_ok, bound):
    """three-valued reading of a comparison term as the proposition `x <= bound`:
    True when t is equivalent to it, False when t is equivalent to its negation, None otherwise"""
    if t[0] == "un" and t[1] == "Not":
        r = le_const(t[2], x_ok, bound)
        return None if r is None else (not r)
    if t[0] != "bin" or t[1] not in ("Le", "Lt", "Ge", "Gt"):
        return None
    op, a, b = t[1], t[2], t[3]

    def cv(c):
        return c[1] if c[0] == "const" and isinstance(c[1], int) else None
    if x_ok(a) and cv(b) is not None:
        c = cv(b)
        return {"Le": True if c == bound else None, "Lt": True if c == bound + 1 else None,
                "Gt": False if c == bound else None, "Ge": False if c == bound + 1 else None}[op]
    if x_ok(b) and cv(a) is not None:
        c = cv(a)
        return {"Ge": True if c == bound else None, "Gt": True if c == bound + 1 else None,
                "Lt": False if c == bound else None, "Le": False if c == bound + 1 else None}[op]
    return None


def values_under(view, starts, atoms, op_json, site_bb=None, some_atoms=()):
    """the terms an operand can hold under the assumptions: the definitions of its (copy-chased) local that lie in blocks
    reachable from `starts` under `atoms`, followed through plain copies of other multiply-defined locals (a value handed on
    through a temporary stays path-sensitive); an operand that is not a plain multiply-defined local yields its one term"""
    from .view import pnorm
    body = view.body
    vis_box = []

    def vis():
        if not vis_box:
            vis_box.append(explore(view, starts, atoms, stop=[site_bb] if site_bb is not None else (), some_atoms=some_atoms))
        return vis_box[0]

    def of_operand(op, depth):
        local = _chase_local(body, op)
        if local is None or depth > 6:
            return {view.op(op)}
        defs = [(bi, st) for bi, si, st in body.stmts() if st["k"] == "assign" and not st["lhs"]["proj"] and st["lhs"]["local"] == local]
        cdefs = [bi for bi in body.live_blocks() if body.blocks[bi]["term"]["k"] == "call" and body.blocks[bi]["term"].get("dest") is not None
                 and not body.blocks[bi]["term"]["dest"]["proj"] and body.blocks[bi]["term"]["dest"]["local"] == local]
        if len(defs) + len(cdefs) <= 1:
            return {view.op(op)}
        v = vis()
        if v is None:
            return {("unknown", "budget")}
        out = set()
        for bi, st in defs:
            if bi in v:
                rv = st["rv"]
                if rv["k"] == "use" and rv["op"]["k"] in ("copy", "move") and not rv["op"]["place"]["proj"]:
                    out |= of_operand(rv["op"], depth + 1)
                else:
                    out.add(pnorm(view.T.rvalue(rv)))
        for bi in cdefs:
            if bi in v:
                out.add(pnorm(view.T.call_term(bi)))
        return out
    return of_operand(op_json, 0)


def kind_atoms(lib, mk_ok, kind):
    """atoms describing `the MatchKind value recognised by mk_ok is <kind>`: comparisons of its discriminant with constants
    and calls of MatchKind's own predicates (their truth value obtained by constant folding the predicate's body)"""
    adt = lib.adts.get("MatchKind")
    variants = {v["name"]: v["discr"] for v in adt["variants"]}
    k = variants[kind]
    atoms = []
    for name, j in variants.items():
        def eqj(t, j=j):
            if t[0] != "bin" or t[1] != "Eq":
                return False
            for x, c in ((t[2], t[3]), (t[3], t[2])):
                if c[0] == "const" and c[1] == j and x[0] == "discr" and mk_ok(x[1]):
                    return True
            return False
        atoms.append((eqj, j == k))
    for b in lib.bodies.values():
        if b.j.get("impl_adt") == "MatchKind" and b.j.get("impl_trait") is None and not b.is_closure and b.arg_count == 1:
            val = fold_fn(b, ("variant", kind, k))
            if val not in (0, 1):
                # predicates written with `==` on the enum (PartialEq::eq calls) or in terms of one another: KIND-PRED's folder
                from .acc import _eval_pred
                r_ = _eval_pred(lib, b, kind, variants)
                val = None if r_ is None else int(bool(r_))
            if val in (0, 1):
                def callp(t, path=b.path):
                    return t[0] == "call" and isinstance(t[1], str) and t[1].split("@")[0] == path.replace("<", "").replace(">", "") and len(t[2]) == 1 and mk_ok(t[2][0])
                atoms.append((callp, bool(val)))
    return atoms
