"""C16: CLI-ARGS (clap argument table extracted from the derive output's MIR), CLI-GUARD (every
write to the output stream is control dependent on the match predicate), CLI-PATS."""
from . import core, cond, coll
from .core import Callee, walk, show
from .view import FnView, pnorm
from .pat import m, ANY, V, K, Par, C, F, E, P, B, Phi, members
from .da import Sites, endswith, anykey
from .search import switches_on, opt_arms, bool_arms, is_const


def const_text(t):
    if t[0] == "const":
        v = t[1]
        if isinstance(v, str):
            s = v
            if s.startswith("const "):
                s = s[6:]
            if len(s) >= 2 and s[0] == '"' and s[-1] == '"':
                return s[1:-1]
            return s
        return v
    return None


def const_char(t):
    if t[0] == "const" and isinstance(t[1], int) and t[2] == "char":
        return chr(t[1])
    return None


def arg_chain(t):
    """walk a clap::Arg builder chain back to Arg::new: returns {id, short, long, action, other calls}"""
    info = {"id": None, "short": None, "long": None, "calls": []}
    cur = t
    while cur[0] == "call" and isinstance(cur[1], str):
        key = core.callee_base(cur[1])
        name = key.split("::")[-1]
        info["calls"].append(name)
        if key.endswith("Arg::new"):
            info["id"] = const_text(cur[2][0]) if cur[2] else None
            break
        if key.endswith("Arg::short") and len(cur[2]) > 1:
            info["short"] = const_char(cur[2][1]) or show(cur[2][1])
        if key.endswith("Arg::long") and len(cur[2]) > 1:
            info["long"] = const_text(cur[2][1])
        if key.endswith("Arg::action") and len(cur[2]) > 1:
            a = cur[2][1]
            info["action"] = a[2] if a[0] == "agg" else show(a)
        if not cur[2]:
            break
        cur = cur[2][0]
    return info


def rule_cli_args(ctx, R):
    cli = ctx.cli
    if cli is None:
        ctx.missing("CLI-ARGS", "daacfind crate facts")
        return
    aug = [b for b in cli.bodies.values() if b.j.get("impl_trait") == "clap::Args" and b.name == "augment_args"]
    if len(aug) != 1:
        ctx.missing("CLI-ARGS", "the clap derive output <Args as clap::Args>::augment_args")
        return
    b = aug[0]
    owner = "daacfind::" + (b.j.get("impl_self_ty") or "Args")
    S = Sites(cli, b)
    args = []
    for s in S.keyed(lambda k: k.endswith("Command::arg")):
        args.append(arg_chain(s["args"][1]))
    ctx.note("clap_arguments", [{k: v for k, v in a.items() if k != "calls"} for a in args])
    ctx.check(len(args) >= 6, "CLI-ARGS", owner, "argument-table", b.span,
              "expected the six documented arguments (-p -f -h -n --color FILE); extracted %d" % len(args))
    # command-level switches, in augment_args and in CommandFactory::command
    cmd_calls = list(S.calls)
    for cb in cli.bodies.values():
        if cb.j.get("impl_trait") == "clap::CommandFactory" and cb.name == "command":
            cmd_calls += Sites(cli, cb).calls
    def flag_on(name):
        for s in cmd_calls:
            if s["key"].endswith("Command::" + name) and len(s["args"]) > 1:
                v = s["args"][1]
                if v[0] == "const" and v[1] in (1, True, "true", "const true"):
                    return True
        return False
    has_version = any(s["key"].endswith("Command::version") for s in cmd_calls)
    auto = []
    if not flag_on("disable_help_flag"):
        auto.append({"id": "help(auto)", "short": "h", "long": "help"})
    if has_version and not flag_on("disable_version_flag"):
        auto.append({"id": "version(auto)", "short": "V", "long": "version"})
    allargs = args + auto
    ctx.note("clap_auto_flags", [a["id"] for a in auto])
    seen_s, seen_l = {}, {}
    clash = False
    for a in allargs:
        if a.get("short"):
            if a["short"] in seen_s:
                clash = True
                ctx.bad("CLI-ARGS", owner, "short-flag-clash:-%s:%s/%s" % (a["short"], seen_s[a["short"]], a["id"]), b.span,
                        "short option -%s is claimed by both `%s` and `%s` (clap's debug assertions panic at start-up; "
                        "in release builds one meaning silently wins)" % (a["short"], seen_s[a["short"]], a["id"]))
            else:
                seen_s[a["short"]] = a["id"]
        if a.get("long"):
            if a["long"] in seen_l:
                clash = True
                ctx.bad("CLI-ARGS", owner, "long-flag-clash:--%s:%s/%s" % (a["long"], seen_l[a["long"]], a["id"]), b.span,
                        "long option --%s is claimed by both `%s` and `%s`" % (a["long"], seen_l[a["long"]], a["id"]))
            else:
                seen_l[a["long"]] = a["id"]
    if not clash:
        ctx.ok("CLI-ARGS", owner, "flags-unique", b.span, "no two arguments (incl. clap's automatic ones) share a short or long flag: shorts %s longs %s"
               % (sorted(seen_s), sorted(seen_l)))
    # ids unique
    ids = [a["id"] for a in args]
    ctx.check(len(set(ids)) == len(ids), "CLI-ARGS", owner, "ids-unique", b.span, "argument ids must be unique; %s" % ids)
    # the documented flags exist and mean what the property says
    want = {"p": "patterns", "f": "pattern_file", "n": "line_number", "h": "no_filename"}
    for sh, aid in want.items():
        ctx.check(seen_s.get(sh) == aid, "CLI-ARGS", owner, "flag:-" + sh, b.span,
                  "-%s must be the short flag of `%s`; it belongs to `%s`" % (sh, aid, seen_s.get(sh)))
    ctx.check(seen_l.get("color") == "color", "CLI-ARGS", owner, "flag:--color", b.span, "--color must exist")
    pos = [a for a in args if not a.get("short") and not a.get("long")]
    ctx.check(len(pos) == 1 and "num_args" in pos[0]["calls"], "CLI-ARGS", owner, "positional-files", b.span,
              "exactly one positional (FILE...) argument expected; found %s" % [a["id"] for a in pos])


def _search_iter_on_line(t, line_param=2, pma_param=1):
    """t derives from a daachorse search method applied to (pma, line)"""
    for x in walk(t):
        if x[0] == "call" and isinstance(x[1], str) and x[1].startswith("daachorse::") and len(x[2]) == 2:
            if m(Par(pma_param), x[2][0]) and m(Par(line_param), x[2][1]):
                return x[1].split("::")[-1]
    return None


def rule_cli_guard(ctx, R):
    cli = ctx.cli
    if cli is None:
        return
    fo = [b for b in cli.bodies.values() if b.name == "find_and_output" and not b.is_closure]
    if len(fo) != 1:
        ctx.missing("CLI-GUARD", "daacfind::find_and_output")
        return
    b = fo[0]
    S = Sites(cli, b)
    root = S.root
    # parameters by name
    pnames = {b.local_names.get(i): i for i in range(1, b.arg_count + 1)}
    need = ("pma", "line", "stream")
    if not all(n in pnames for n in need):
        ctx.missing("CLI-GUARD", "find_and_output parameters pma/line/stream (found %s)" % sorted(pnames))
        return
    pma, line, stream = pnames["pma"], pnames["line"], pnames["stream"]
    writes = [s for s in S.calls if any(m(Par(stream), a) for a in s["args"])]
    ctx.check(len(writes) >= 2, "CLI-GUARD", b, "stream-writes-found", b.span, "no writes to the output stream found")
    # positive guards
    guards = []   # (switch bb, positive target, description)
    def first_match(t):
        """t is `<search iterator over (pma, line)>.next()`"""
        if t[0] == "call" and isinstance(t[1], str) and core.callee_base(t[1]) == "core::iter::Iterator::next":
            return _search_iter_on_line(t[2][0], line, pma)
        return None
    # has-a-match tests in any form: .is_some() / !.is_none() / `if let Some(_) =` / match on the first item
    for sbi, stj, d in switches_on(root, lambda d: True):
        neg = False
        x = d
        while x[0] == "un" and x[1] == "Not":
            neg = not neg
            x = x[2]
        if x[0] == "call" and isinstance(x[1], str) and core.callee_base(x[1]) in ("core::option::Option::is_some", "core::option::Option::is_none"):
            meth = first_match(x[2][0])
            if meth:
                if core.callee_base(x[1]).endswith("is_none"):
                    neg = not neg
                tt, ff = bool_arms(stj)
                guards.append((sbi, ff if neg else tt, "%s(line).next() is Some" % meth))
        elif x[0] == "discr" and not neg:
            meth = first_match(x[1])
            # a loop pull is not a has-a-match test of its own (the flag rule below covers loops)
            if meth and not b.in_cycle(sbi):
                guards.append((sbi, opt_arms(stj)[0], "%s(line).next() is Some" % meth))
    # bool flag set only inside a loop over a search iterator
    for sbi, stj, d in switches_on(root, lambda d: True):
        disc = stj["discr"]
        if disc["k"] in ("copy", "move") and not disc["place"]["proj"] and b.locals[disc["place"]["local"]]["ty"] == "bool":
            l = disc["place"]["local"]
            # chase copies
            src = l
            for _ in range(3):
                ds = b.defs().get(src, [])
                if len(ds) == 1 and ds[0][0] == "rv" and ds[0][3]["k"] == "use" and ds[0][3]["op"]["k"] in ("copy", "move") \
                        and not ds[0][3]["op"]["place"]["proj"]:
                    src = ds[0][3]["op"]["place"]["local"]
            ds = b.defs().get(src, [])
            trues = []
            ok = bool(ds)
            for dd in ds:
                if dd[0] == "rv" and dd[3]["k"] == "use" and dd[3]["op"]["k"] == "const" and dd[3]["op"].get("bits") in (0, 1):
                    if dd[3]["op"]["bits"] == 1:
                        trues.append(dd[1])
                else:
                    ok = False
            if not ok or not trues:
                continue
            # every `= true` is on the Some arm of a pull from a search iterator over (pma, line)
            good = True
            meth = None
            for tb in trues:
                g = False
                for pbi, ptj, pd in switches_on(root, lambda d: d[0] == "discr" and d[1][0] == "call" and
                                                core.callee_base(d[1][1]) == "core::iter::Iterator::next"):
                    mm = _search_iter_on_line(pd[1], line, pma)
                    if mm and b.edge_guards((pbi, opt_arms(ptj)[0]), tb):
                        g = True
                        meth = mm
                good = good and g
            if good:
                guards.append((sbi, bool_arms(stj)[0], "flag set inside the loop over %s(line)" % meth))
    ctx.note("print_guards", [g[2] for g in guards])
    for s in writes:
        g = [desc for sbi, tgt, desc in guards if b.edge_guards((sbi, tgt), s["bb"])]
        ctx.check(bool(g), "CLI-GUARD", b, "write-guarded:" + s["name"], b.loc(s["bb"]),
                  "every write to the stream must be control dependent on the line containing a match; `%s` is %s"
                  % (s["name"], "guarded by " + g[0] if g else "reachable without any match test"))
    # the plain branch prints the line itself unchanged: writeln!(stream, "{line}")
    plain = [s for s in writes if s["name"] == "write_fmt" and any(m(C(endswith("Argument::new_display"), Par(line)), x) for x in walk(s["args"][1]))]
    ctx.check(len(plain) >= 1, "CLI-GUARD", b, "prints-line-unchanged", b.span,
              "the uncoloured branch must print the `line` parameter itself")
    # CLI-BUF: a buffer indexed with match offsets (byte offsets, 0..=line.len()) must have line.len()+1 slots
    idxs = [s for s in S.calls if core.callee_base(s["key"]) in ("core::ops::IndexMut::index_mut", "core::ops::Index::index")
            and any(x[0] == "call" and isinstance(x[1], str) and x[1].startswith("daachorse::Match::") for x in walk(s["args"][1]))]
    bufs = []
    for s in idxs:
        if not any(core.same(s["args"][0], x) for x in bufs):
            bufs.append(s["args"][0])
    for buf in bufs:
        defs = []
        if buf[0] == "var":
            defs = [pnorm(t) for k, t, bb in root.T.container_defs(buf[2]) if k in ("call", "rv")]
        else:
            defs = [buf]
        ok = any(m(C("alloc::vec::from_elem", ANY, B("Add", C("core::str::len", Par(line)), K(1))), t) for t in defs)
        ctx.check(ok, "CLI-BUF", b, "offset-buffer-length", b.span,
                  "a buffer indexed by Match::start()/end() (byte offsets up to line.len()) must be created with line.len() + 1 slots "
                  "(byte length, not a character count); created as %s" % [show(t) for t in defs])
    # CLI-HL: +1 at every match start, -1 at every match end, for every match pulled from the no-suffix overlapping search
    for buf in bufs:
        sts = [x for x in S.stores if x["tgt"][0] == "elem" and core.same(x["tgt"][1], buf)]
        def mcall(name):
            return lambda t, e: t[0] == "call" and isinstance(t[1], str) and t[1] == "daachorse::Match::" + name and \
                _search_iter_on_line(t[2][0], line, pma) == "find_overlapping_no_suffix_iter"
        pulls = [x for x in S.calls if core.callee_base(x["key"]) == "core::iter::Iterator::next" and
                 _search_iter_on_line(x["args"][0], line, pma) == "find_overlapping_no_suffix_iter"]
        # per pull site (one loop, or the first match peeled off in front of the loop): +1 at start() and -1 at end() of THAT item
        def of_item(name, psite_):
            return lambda t, e: t[0] == "call" and isinstance(t[1], str) and t[1] == "daachorse::Match::" + name and \
                any(y[0] == "call" and y[3] == psite_ for y in walk(t[2][0])) and \
                _search_iter_on_line(t[2][0], line, pma) == "find_overlapping_no_suffix_iter"
        okd = bool(pulls)
        used = []
        per_pull = []
        for pl_ in pulls:
            ps_ = (b.path, pl_["bb"])
            inc = [x for x in sts if m(of_item("start", ps_), x["tgt"][2]) and m(B("Add", E(ANY, of_item("start", ps_)), K(1)), x["val"])]
            dec = [x for x in sts if m(of_item("end", ps_), x["tgt"][2]) and m(B("Sub", E(ANY, of_item("end", ps_)), K(1)), x["val"])]
            okd = okd and len(inc) == 1 and len(dec) == 1
            used += inc + dec
            per_pull.append((pl_, inc, dec))
        okd = okd and len(used) == len(sts)
        ctx.check(okd, "CLI-HL", b, "depth-deltas", b.span,
                  "highlighting must add 1 at start() and subtract 1 at end() of every match of find_overlapping_no_suffix_iter(line); stores %s"
                  % [(show(x["tgt"])[:80], show(x["val"])[:80]) for x in sts])
        if okd:
            okp = True
            stops = {pl_["bb"] for pl_ in pulls} | {s_["bb"] for s_ in writes}
            for pl_, inc, dec in per_pull:
                sw = switches_on(root, lambda d: d[0] == "discr" and d[1][0] == "call" and d[1][3] == (b.path, pl_["bb"]))
                if len(sw) != 1:
                    okp = False
                    continue
                some, none = opt_arms(sw[0][1])
                for x in inc + dec:
                    # from the Some arm neither another pull nor any output is reached without passing the store
                    r_ = b.reach(some, avoid_blocks=[x["bb"]]) - ({some} if some != x["bb"] else set())
                    if some != x["bb"] and (r_ & stops):
                        okp = False
            ctx.check(okp, "CLI-HL", b, "every-match-counted", b.span, "both deltas are applied for every match pulled (no match skipped)")
    # both search calls are on the same (pma, line)
    for s in S.calls:
        if s["key"].startswith("daachorse::") and len(s["args"]) == 2:
            ctx.check(m(Par(pma), s["args"][0]) and m(Par(line), s["args"][1]), "CLI-GUARD", b, "search-on-line:" + s["name"], b.loc(s["bb"]),
                      "searches must run on the `line` parameter with the given automaton")
    # a line is dismissed only by the automaton: no path from the entry to a return avoids every search on (pma, line)
    searches = [s["bb"] for s in S.calls if s["key"].startswith("daachorse::") and len(s["args"]) == 2
                and m(Par(pma), s["args"][0]) and m(Par(line), s["args"][1])]
    if searches:
        # (decided under "the line is not empty": patterns are non-empty, so an empty line may be dismissed without a search)
        def line_empty(t):
            return (t[0] == "call" and isinstance(t[1], str) and core.callee_base(t[1]).endswith("::is_empty") and len(t[2]) == 1 and m(Par(line), t[2][0])) or \
                (t[0] == "bin" and t[1] == "Eq" and any(x[0] == "call" and isinstance(x[1], str) and core.callee_base(x[1]).endswith("::len")
                                                        and x[2] and m(Par(line), x[2][0]) for x in (t[2], t[3])) and any(is_const(x, 0) for x in (t[2], t[3])))
        free = cond.explore(root, [0], [(line_empty, False)], stop=searches)
        bad = sorted(r for r in b.return_blocks() if free is None or (r in free and r not in searches))
        ctx.check(not bad, "CLI-GUARD", b, "dismissed-only-by-search", b.loc(bad[0]) if bad else b.span,
                  "every path through find_and_output must consult the automaton on the line before returning (a pre-filter that returns early "
                  "drops matching lines); %d return(s) reachable without a search" % len(bad))


def rule_cli_pats(ctx, R):
    cli = ctx.cli
    if cli is None:
        return
    mains = [b for b in cli.bodies.values() if b.name == "main" and not b.is_closure]
    if len(mains) != 1:
        ctx.missing("CLI-PATS", "daacfind::main")
        return
    b = mains[0]
    S = Sites(cli, b)
    news = [s for s in S.calls if s["key"].startswith("daachorse::") and s["name"] == "new"]
    ok = len(news) == 1
    ctx.check(ok, "CLI-PATS", b, "one-automaton", b.span, "main must build exactly one automaton from the collected patterns")
    if not ok:
        return
    pats = news[0]["args"][0]
    adds = coll.additions(S, lambda t: core.same(t, pats))
    srcs = set()
    for a in adds:
        for x in walk(a.val):
            if x[0] == "field" and x[3] in ("patterns", "pattern_file"):
                srcs.add(x[3])
    ctx.check(srcs == {"patterns", "pattern_file"}, "CLI-PATS", b, "both-sources", b.span,
              "patterns from -p and from -f must feed the same vector passed to DoubleArrayAhoCorasick::new; sources %s" % sorted(srcs))
    # -p is split exactly on '\n' (documented: "patterns separated with new lines"); a pattern may contain '\r'
    psplit = [s for s in S.calls if s["args"] and any(x[0] == "field" and x[3] == "patterns" for x in walk(s["args"][0])) and s["key"].startswith("core::str::")
              and s["name"] not in ("is_empty", "len", "to_string", "as_bytes")] if S.calls else []
    oks = len(psplit) == 1 and psplit[0]["name"] == "split" and len(psplit[0]["args"]) == 2 and \
        psplit[0]["args"][1][0] == "const" and psplit[0]["args"][1][1] == 10
    if not oks:
        # what matters is the splitter of the pieces that are ADDED (a second pass over the string that only counts pieces for a
        # `reserve` is free): every -p addition's element comes out of exactly one str transformation, split('\n')
        padds = [a for a in adds if any(x[0] == "field" and x[3] == "patterns" for x in walk(a.val))]
        def str_ops(t):
            return [x for x in walk(t) if x[0] == "call" and isinstance(x[1], str) and x[1].startswith("core::str::") and
                    x[1].split("@")[0].split("::")[-1] not in ("is_empty", "len", "to_string", "as_bytes", "to_owned")]
        oks = bool(padds) and all(len(str_ops(a.val)) == 1 and str_ops(a.val)[0][1].split("@")[0].endswith("::split") and
                                  len(str_ops(a.val)[0][2]) == 2 and str_ops(a.val)[0][2][1][0] == "const" and str_ops(a.val)[0][2][1][1] == 10
                                  for a in padds)
    ctx.check(oks, "CLI-PATS", b, "p-split-on-newline", b.span,
              "the -p argument must be split with split('\\n') only (no CR stripping / trimming: patterns are arbitrary strings); found %s"
              % [(s["name"], [show(a) for a in s["args"][1:]]) for s in psplit])
    # the two sources are independent: each one is read whenever it is given, whatever the state of the other (`else if` between the
    # -f and the -p block would drop -p when both are given)
    def src_opt(name):
        return lambda t: t[0] == "field" and t[3] == name
    for name, other in (("patterns", "pattern_file"), ("pattern_file", "patterns")):
        mine = [a for a in adds if any(x[0] == "field" and x[3] == name for x in walk(a.val))]
        oki = bool(mine)
        for other_given in (True, False):
            vis = cond.explore(S.root, [0], [], some_atoms=[(src_opt(name), True), (src_opt(other), other_given)])
            oki = oki and vis is not None and all(a.bb in vis for a in mine)
        ctx.check(oki, "CLI-PATS", b, "source-independent:" + name, b.loc(mine[0].bb) if mine else b.span,
                  "the patterns of -%s must be collected whenever the option is given, with or without the other pattern option"
                  % ("p" if name == "patterns" else "f"))
    # the build error is propagated, not unwrapped
    site = (b.path, news[0]["bb"])
    bad = [s for s in S.calls if core.callee_base(s["key"]) in ("core::result::Result::unwrap", "core::result::Result::expect",
                                                                 "core::result::Result::unwrap_or_default", "core::result::Result::ok")
           and any(x[0] == "call" and x[3] == site for x in walk(s["args"][0]))]
    def direct(t):
        if t[0] == "call" and t[3] == site:
            return True
        return t[0] == "call" and core.callee_base(t[1]) in ("core::result::Result::map_err", "core::result::Result::map") and direct(t[2][0])
    sw = switches_on(S.root, lambda d: d[0] == "discr" and d[1][0] == "call" and core.callee_base(d[1][1]) == "core::ops::Try::branch"
                     and direct(d[1][2][0]))
    ctx.check(not bad and len(sw) == 1, "CLI-PATS", b, "build-error-propagated", b.loc(news[0]["bb"]),
              "a failing build must be reported through main's Result, not unwrapped")
    # every line is searched: find_and_output is called for each line of stdin / each file
    fo = [s for s in S.calls if s["name"] == "find_and_output"]
    ctx.check(len(fo) >= 2 and all(b.in_cycle(s["bb"]) for s in fo), "CLI-PATS", b, "every-line-searched", b.span,
              "find_and_output must be called in the per-line loops (stdin and files)")


def _lines_enumerate(t, which):
    """t == ((next(enumerate(lines(R))) as Some).0).<which> possibly behind a `?`/Ok payload; returns the pull site or None"""
    x = t
    # peel payloads (`line?` or `match line { Ok(l) => l }`)
    for _ in range(3):
        if x[0] == "payload":
            x = x[1]
        elif x[0] == "field" and x[3] == "0" and x[1][0] == "variant" and x[1][2] in ("Ok", "Continue"):
            x = x[1][1]
        else:
            break
    if x[0] == "field" and x[2] == "(tuple)" and x[3] == which and x[1][0] == "payload":
        c = x[1][1]
        if c[0] == "call" and core.callee_base(c[1]) == "core::iter::Iterator::next":
            src = c[2][0]
            if src[0] == "call" and core.callee_base(src[1]) == "core::iter::Iterator::enumerate" and src[2][0][0] == "call" and \
                    src[2][0][1].endswith("BufRead::lines"):
                return c[3]
    return None


def rule_cli_lines(ctx, R):
    """CLI-LINES / CLI-FLAGS: every input line is numbered by its position in the reader (enumerate directly on lines());
    prefixes are governed by the flags only; prefix order is filename, line number, line."""
    cli = ctx.cli
    if cli is None:
        return
    mains = [b for b in cli.bodies.values() if b.name == "main" and not b.is_closure]
    fo = [b for b in cli.bodies.values() if b.name == "find_and_output" and not b.is_closure]
    if len(mains) != 1 or len(fo) != 1:
        return
    b = mains[0]
    S = Sites(cli, b)
    pn = {fo[0].local_names.get(i): i - 1 for i in range(1, fo[0].arg_count + 1)}   # argument positions by name
    need = ("pma", "line", "filename", "line_no", "color", "stream")
    if not all(n in pn for n in need):
        ctx.missing("CLI-LINES", "find_and_output parameters %s" % (need,))
        return
    calls = [s for s in S.calls if s["name"] == "find_and_output"]
    for s in calls:
        loc = b.loc(s["bb"])
        line = s["args"][pn["line"]]
        site = _lines_enumerate(line, "1")
        ctx.check(site is not None, "CLI-LINES", b, "line-from-enumerated-lines", loc,
                  "the searched line must be the item of `reader.lines().enumerate()` (no filtering/skipping between lines() and enumerate()); found %s" % show(line)[:200])
        fnm = s["args"][pn["filename"]]
        if fnm[0] == "agg" and fnm[2] == "None":
            ctx.ok("CLI-FLAGS", b, "stdin-no-filename", loc, "stdin lines carry no file name")
        else:
            # Some(file's own name) exactly when !args.no_filename (whatever the source form: and_then + if, filter, then_some..)
            def own_name(x):
                return any(y[0] == "call" and y[1].endswith("Path::to_str") for y in walk(x)) and x[0] in ("payload", "call")
            okc = cond.some_iff(S.fv, S.root, fnm, s["tj"]["args"][pn["filename"]],
                                lambda t: t[0] == "field" and t[3] == "no_filename", False, own_name)
            ctx.check(okc, "CLI-FLAGS", b, "filename-unless-no-filename", loc,
                      "file lines carry the file's own name unless -h/--no-filename is set; found %s" % show(fnm)[:200])
        ln = s["args"][pn["line_no"]]
        def same_index(x):
            return site is not None and _lines_enumerate(x, "0") == site
        okt = cond.some_iff(S.fv, S.root, ln, s["tj"]["args"][pn["line_no"]],
                            lambda t: t[0] == "field" and t[3] == "line_number", True, same_index)
        ctx.check(okt, "CLI-LINES", b, "line-number-is-enumerate-index", loc,
                  "the line number must be Some(enumerate index of that same line) or None; found %s" % show(ln)[:200])
        ctx.check(okt, "CLI-FLAGS", b, "line-number-iff-flag", loc, "line numbers are passed exactly when -n/--line-number is set")
        ctx.check(m(F(ANY, "color"), s["args"][pn["color"]]), "CLI-FLAGS", b, "color-from-args", loc, "the colour mode passed on is args.color")
    ctx.check(len(calls) == 2, "CLI-LINES", b, "two-line-loops", b.span, "one per-line loop for stdin and one for files expected; found %d" % len(calls))
    # standard input is read exactly when no file is named; named files are read whenever there are any
    def files_empty(t):
        of_files = lambda y: any(x[0] == "field" and x[3] == "files" for x in walk(y))
        if t[0] == "call" and isinstance(t[1], str) and core.callee_base(t[1]).endswith("::is_empty") and len(t[2]) == 1:
            return of_files(t[2][0])
        return t[0] == "bin" and t[1] == "Eq" and any(is_const(x, 0) for x in (t[2], t[3])) and \
            any(x[0] == "call" and isinstance(x[1], str) and core.callee_base(x[1]).endswith("::len") and x[2] and of_files(x[2][0]) for x in (t[2], t[3]))
    stdin_calls = [s for s in calls if s["args"][pn["filename"]][0] == "agg" and s["args"][pn["filename"]][2] == "None"]
    file_calls = [s for s in calls if s not in stdin_calls]
    if len(calls) == 2 and len(stdin_calls) == 1:
        ve = cond.explore(S.root, [0], [(files_empty, True)])
        vn = cond.explore(S.root, [0], [(files_empty, False)])
        oks = ve is not None and vn is not None and stdin_calls[0]["bb"] in ve and stdin_calls[0]["bb"] not in vn and \
            all(s["bb"] in vn for s in file_calls)
        ctx.check(oks, "CLI-LINES", b, "stdin-iff-no-files", b.loc(stdin_calls[0]["bb"]),
                  "standard input must be searched exactly when no file argument is given, and the named files otherwise")
    # ---- pattern collection guards: -f lines and -p pieces are kept iff non-empty, unmodified
    adds = coll.additions(S, lambda t: t[0] == "var")
    for a in adds:
        val = a.val
        src = val[2][0] if (val[0] == "call" and val[1].endswith("to_string")) else val

        def empty(t):
            return t[0] == "call" and t[1].split("@")[0].endswith("::is_empty") and len(t[2]) == 1 and core.same(t[2][0], src)
        okg = a.kept_iff(empty, False)
        modified = [x[1] for x in walk(src) if x[0] == "call" and isinstance(x[1], str) and x[1].startswith("core::str::") and
                    x[1].split("::")[-1] in ("trim", "trim_start", "trim_end", "trim_matches", "to_lowercase", "to_uppercase", "strip_prefix", "strip_suffix")]
        ctx.check(okg and not modified, "CLI-PATS", b, "pattern-kept-iff-nonempty", b.loc(a.bb),
                  "a pattern line/piece is kept exactly when it is non-empty, and unmodified (no trimming); added %s" % show(val)[:160])
    ctx.check(len(adds) >= 2, "CLI-PATS", b, "pattern-additions", b.span, "the -f and the -p source each add their patterns to the collection")


def rule_cli_print(ctx, R):
    """CLI-ORDER / CLI-BUF(width): prefixes precede the line in both branches; the highlight depth counter is wide
    enough for any number of nested matches."""
    cli = ctx.cli
    if cli is None:
        return
    fo = [b for b in cli.bodies.values() if b.name == "find_and_output" and not b.is_closure]
    if len(fo) != 1:
        return
    b = fo[0]
    S = Sites(cli, b)
    pnames = {b.local_names.get(i): i for i in range(1, b.arg_count + 1)}
    if not all(n in pnames for n in ("filename", "line_no", "line", "stream")):
        return
    def writes_of(param):
        out = []
        for s in S.calls:
            if s["name"] == "write_fmt" and m(Par(pnames["stream"]), s["args"][0]):
                disp = [x for x in walk(s["args"][1]) if x[0] == "call" and x[1].endswith("Argument::new_display")]
                if any(any(y[0] == "param" and y[1] == pnames[param] for y in walk(d)) for d in disp):
                    out.append(s)
            elif s["name"] == "write_all" and len(s["args"]) == 2 and m(Par(pnames["stream"]), s["args"][0]) and \
                    any(y[0] == "param" and y[1] == pnames[param] for y in walk(s["args"][1])):
                # the bytes written directly: stream.write_all(text.as_bytes()) is what `write!(stream, "{}", text)` does
                out.append(s)
        return out
    wf, wn, wl = writes_of("filename"), writes_of("line_no"), writes_of("line")
    ctx.check(len(wf) == 2 and len(wn) == 2 and len(wl) >= 3, "CLI-ORDER", b, "prefix-writes", b.span,
              "both branches print the file-name prefix, the line-number prefix and text of the line; found %d/%d/%d writes" % (len(wf), len(wn), len(wl)))
    for f in wf:
        # the matching line-number write is the one reachable from it
        ns = [n for n in wn if n["bb"] in b.reach(f["bb"])]
        ls = [l for l in wl if l["bb"] in b.reach(f["bb"])]
        ok = len(ns) == 1 and f["bb"] not in b.reach(ns[0]["bb"]) and ls and all(ns[0]["bb"] not in b.reach(l["bb"]) for l in ls)
        ctx.check(ok, "CLI-ORDER", b, "filename-then-number-then-line", b.loc(f["bb"]),
                  "the file-name prefix comes first, then the line number, then the line")
        # prefixes are printed iff given: guarded by the Some arm of the respective Option parameter
        for w, pname in ((f, "filename"),) + tuple((n, "line_no") for n in ns):
            sw = switches_on(S.root, lambda d: d[0] == "discr" and m(Par(pnames[pname]), d[1]))
            ctx.check(any(b.edge_guards((sbi, opt_arms(stj)[0]), w["bb"]) for sbi, stj, d in sw), "CLI-ORDER", b, "prefix-iff-some:" + pname, b.loc(w["bb"]),
                      "the %s prefix is printed exactly when it was passed" % pname)
    # depth counter width
    for bi, si, st in b.stmts():
        pass
    bufs = [s for s in S.calls if s["key"] == "alloc::vec::from_elem" and any(x[0] == "call" and x[1] == "core::str::len" for x in walk(s["args"][1]))]
    for s in bufs:
        ety = s["c"].targ_s(0)
        ctx.check(ety in ("isize", "i64", "i32", "usize", "u64", "u32", "i128", "u128"), "CLI-BUF", b, "depth-counter-width", b.loc(s["bb"]),
                  "the per-byte nesting counter must not overflow for any number of overlapping matches (>= 32-bit integer); element type is %s" % ety)


def rule_cli_hl2(ctx, R):
    """CLI-HL2: the print loop of the colour branch: depth = running sum of the deltas; a plain segment line[prev..pos] is
    flushed (after reset) exactly on a 0 -> non-0 transition, a red segment (after set_color) on a non-0 -> 0 transition,
    prev := pos after each, and the tail line[prev..] is printed after a reset."""
    cli = ctx.cli
    if cli is None:
        return
    fo = [b for b in cli.bodies.values() if b.name == "find_and_output" and not b.is_closure]
    if len(fo) != 1:
        return
    b = fo[0]
    S = Sites(cli, b)
    root = S.root
    pnames = {b.local_names.get(i): i for i in range(1, b.arg_count + 1)}
    if not all(n in pnames for n in ("line", "stream")):
        return
    line = Par(pnames["line"])
    # the enumerate pull over the delta buffer
    pulls = [s for s in S.calls if core.callee_base(s["key"]) == "core::iter::Iterator::next" and
             any(x[0] == "call" and core.callee_base(x[1]) == "core::iter::Iterator::enumerate" for x in walk(s["args"][0])) and
             any(x[0] == "call" and x[1] == "alloc::vec::from_elem" or x[0] == "var" for x in walk(s["args"][0]))]
    indexed = False
    if len(pulls) != 1:
        # the same walk as an index loop: `for pos in 0..buf.len() { .. buf[pos] .. }`
        def over_buf(r):
            if r[0] == "agg" and r[1] == "core::ops::Range":
                f = dict(r[3])
                return is_const(f["start"], 0) and f["end"][0] == "call" and isinstance(f["end"][1], str) and \
                    core.callee_base(f["end"][1]) == "alloc::vec::Vec::len" and f["end"][2] and f["end"][2][0][0] == "var"
            return False
        from .pat import iter_origin
        pulls = [s for s in S.calls if core.callee_base(s["key"]) == "core::iter::Iterator::next" and over_buf(iter_origin(s["args"][0]))]
        indexed = len(pulls) == 1
    if len(pulls) != 1:
        ctx.bad("CLI-HL2", b, "print-loop", b.span, "one loop over the enumerated delta buffer expected; found %d" % len(pulls))
        return
    psite = (b.path, pulls[0]["bb"])
    item = P(C(anykey, ANY, site=psite))
    if indexed:
        from .pat import iter_origin
        bufv = dict(iter_origin(pulls[0]["args"][0])[3])["end"][2][0]
        pos = item
        delta = E(lambda t, e: core.same(t, bufv), item)
    else:
        pos = F(item, "0", "(tuple)")
        delta = F(item, "1", "(tuple)")
    # segment writes: Index(line, Range{start, end}) / RangeFrom
    segs = [s for s in S.calls if core.callee_base(s["key"]) == "core::ops::Index::index" and m(line, s["args"][0])]
    in_loop = [s for s in segs if s["args"][1][0] == "agg" and s["args"][1][1] == "core::ops::Range"]
    tail = [s for s in segs if s["args"][1][0] == "agg" and s["args"][1][1] == "core::ops::RangeFrom"]
    prev = Phi(K(0), pos)
    ok = len(in_loop) >= 1 and len(tail) == 1
    if ok:
        for s in in_loop:
            f = dict(s["args"][1][3])
            ok = ok and m(prev, f["start"]) and m(pos, f["end"])
        ok = ok and m(prev, dict(tail[0]["args"][1][3])["start"])
    ctx.check(ok, "CLI-HL2", b, "segments", b.span,
              "the loop prints line[prev_pos..pos] (pos = index in the delta buffer) and finally line[prev_pos..]; found %s"
              % [show(s["args"][1])[:80] for s in segs])
    if not ok:
        return
    sw_p = switches_on(root, lambda d: d[0] == "discr" and d[1][0] == "call" and d[1][3] == psite)
    if len(sw_p) != 1:
        return
    some, none = opt_arms(sw_p[0][1])
    # depth: 0 | depth + delta.  The two atomic conditions are (old depth == 0) and (new depth == 0); the loop body is evaluated
    # under each of their four combinations (cond.explore), whatever the source form of the test is
    olddepth = Phi(K(0), B("Add", ANY, delta), req=[0, 1])
    newdepth = B("Add", Phi(K(0), B("Add", ANY, delta)), delta)

    def atom(which):
        def f(t):
            if not (t[0] == "bin" and t[1] == "Eq" and (is_const(t[2], 0) or is_const(t[3], 0))):
                return False
            x = t[3] if is_const(t[2], 0) else t[2]
            if which == "new":
                return x[0] == "bin" and m(newdepth, x)
            return x[0] != "bin" and m(olddepth, x)
        return f
    O, N = atom("old"), atom("new")
    resets = [s for s in S.calls if s["name"] == "reset" and m(Par(pnames["stream"]), s["args"][0])]
    setc = [s for s in S.calls if s["name"] == "set_color" and m(Par(pnames["stream"]), s["args"][0])]
    segb = {s["bb"] for s in in_loop}
    resb = {s["bb"] for s in resets}
    setb = {s["bb"] for s in setc}
    pull = pulls[0]["bb"]

    def flushes(o, n, first, never):
        """under (old==0)=o,(new==0)=n every path through the body reaches a segment write, a `first` call precedes it on
        every path and no `never` call precedes it on any path (error returns of `?` may leave the loop)"""
        at = [(O, o), (N, n)]
        v1 = cond.explore(root, [some], at, stop=segb)
        v2 = cond.explore(root, [some], at, stop=first | segb)
        return v1 is not None and v2 is not None and bool(v1 & segb) and pull not in v1 and not (v1 & never) and not (v2 & segb)

    def quiet(o, n):
        v = cond.explore(root, [some], [(O, o), (N, n)], stop={pull})
        return v is not None and not (v & (segb | resb | setb))
    okt = flushes(True, False, resb, setb) and flushes(False, True, setb, resb) and quiet(True, True) and quiet(False, False)
    ctx.check(okt, "CLI-HL2", b, "transition-guards", b.span,
              "the plain segment is flushed (after reset) exactly when depth goes 0 -> non-0, the highlighted segment (after "
              "set_color) exactly when it goes non-0 -> 0, and nothing is written while the depth stays zero / non-zero "
              "(depth = running sum of the deltas)")
    # a foreground colour is set on the spec passed to set_color (a literal `Color::Red`, or a named constant)
    redspec = [x for c in setc for x in walk(c["args"][1]) if (x[0] == "agg" and x[2] == "Red") or
               (x[0] in ("call", "mutby") and isinstance(x[1], str) and x[1].split("@")[0].endswith("ColorSpec::set_fg") and
                any(y[0] == "agg" and y[2] == "Some" for y in x[2]))]
    ctx.check(bool(redspec), "CLI-HL2", b, "highlight-colour", b.span, "matched text is highlighted (foreground colour set)")
    # depth := new depth on every iteration; prev := pos after each flush
    ctx.check(any(b.edge_guards((sw_p[0][0], none), r["bb"]) and b.dominates(r["bb"], tail[0]["bb"]) for r in resets) and
              b.edge_guards((sw_p[0][0], none), tail[0]["bb"]), "CLI-HL2", b, "tail", b.span,
              "after the loop the remainder of the line is printed with colours reset")
