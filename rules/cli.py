"""C16: CLI-ARGS (clap argument table extracted from the derive output's MIR), CLI-GUARD (every
write to the output stream is control dependent on the match predicate), CLI-PATS."""
from . import core
from .core import Callee, walk, show
from .view import FnView, pnorm
from .pat import m, ANY, V, K, Par, C, F, E, P, B, Phi, members
from .da import Sites, endswith, anykey
from .search import switches_on, opt_arms, bool_arms, is_const


def const_text(t):
    if t[0] == "const":
        v = t[1]
        if isinstance(v, str):
            s = v
            if s.startswith("const "):
                s = s[6:]
            if len(s) >= 2 and s[0] == '"' and s[-1] == '"':
                return s[1:-1]
            return s
        return v
    return None


def const_char(t):
    if t[0] == "const" and isinstance(t[1], int) and t[2] == "char":
        return chr(t[1])
    return None


def arg_chain(t):
    """walk a clap::Arg builder chain back to Arg::new: returns {id, short, long, action, other calls}"""
    info = {"id": None, "short": None, "long": None, "calls": []}
    cur = t
    while cur[0] == "call" and isinstance(cur[1], str):
        key = core.callee_base(cur[1])
        name = key.split("::")[-1]
        info["calls"].append(name)
        if key.endswith("Arg::new"):
            info["id"] = const_text(cur[2][0]) if cur[2] else None
            break
        if key.endswith("Arg::short") and len(cur[2]) > 1:
            info["short"] = const_char(cur[2][1]) or show(cur[2][1])
        if key.endswith("Arg::long") and len(cur[2]) > 1:
            info["long"] = const_text(cur[2][1])
        if key.endswith("Arg::action") and len(cur[2]) > 1:
            a = cur[2][1]
            info["action"] = a[2] if a[0] == "agg" else show(a)
        if not cur[2]:
            break
        cur = cur[2][0]
    return info


def rule_cli_args(ctx, R):
    cli = ctx.cli
    if cli is None:
        ctx.missing("CLI-ARGS", "daacfind crate facts")
        return
    aug = [b for b in cli.bodies.values() if b.j.get("impl_trait") == "clap::Args" and b.name == "augment_args"]
    if len(aug) != 1:
        ctx.missing("CLI-ARGS", "the clap derive output <Args as clap::Args>::augment_args")
        return
    b = aug[0]
    owner = "daacfind::" + (b.j.get("impl_self_ty") or "Args")
    S = Sites(cli, b)
    args = []
    for s in S.keyed(lambda k: k.endswith("Command::arg")):
        args.append(arg_chain(s["args"][1]))
    ctx.note("clap_arguments", [{k: v for k, v in a.items() if k != "calls"} for a in args])
    ctx.check(len(args) >= 6, "CLI-ARGS", owner, "argument-table", b.span,
              "expected the six documented arguments (-p -f -h -n --color FILE); extracted %d" % len(args))
    # command-level switches, in augment_args and in CommandFactory::command
    cmd_calls = list(S.calls)
    for cb in cli.bodies.values():
        if cb.j.get("impl_trait") == "clap::CommandFactory" and cb.name == "command":
            cmd_calls += Sites(cli, cb).calls
    def flag_on(name):
        for s in cmd_calls:
            if s["key"].endswith("Command::" + name) and len(s["args"]) > 1:
                v = s["args"][1]
                if v[0] == "const" and v[1] in (1, True, "true", "const true"):
                    return True
        return False
    has_version = any(s["key"].endswith("Command::version") for s in cmd_calls)
    auto = []
    if not flag_on("disable_help_flag"):
        auto.append({"id": "help(auto)", "short": "h", "long": "help"})
    if has_version and not flag_on("disable_version_flag"):
        auto.append({"id": "version(auto)", "short": "V", "long": "version"})
    allargs = args + auto
    ctx.note("clap_auto_flags", [a["id"] for a in auto])
    seen_s, seen_l = {}, {}
    clash = False
    for a in allargs:
        if a.get("short"):
            if a["short"] in seen_s:
                clash = True
                ctx.bad("CLI-ARGS", owner, "short-flag-clash:-%s:%s/%s" % (a["short"], seen_s[a["short"]], a["id"]), b.span,
                        "short option -%s is claimed by both `%s` and `%s` (clap's debug assertions panic at start-up; "
                        "in release builds one meaning silently wins)" % (a["short"], seen_s[a["short"]], a["id"]))
            else:
                seen_s[a["short"]] = a["id"]
        if a.get("long"):
            if a["long"] in seen_l:
                clash = True
                ctx.bad("CLI-ARGS", owner, "long-flag-clash:--%s:%s/%s" % (a["long"], seen_l[a["long"]], a["id"]), b.span,
                        "long option --%s is claimed by both `%s` and `%s`" % (a["long"], seen_l[a["long"]], a["id"]))
            else:
                seen_l[a["long"]] = a["id"]
    if not clash:
        ctx.ok("CLI-ARGS", owner, "flags-unique", b.span, "no two arguments (incl. clap's automatic ones) share a short or long flag: shorts %s longs %s"
               % (sorted(seen_s), sorted(seen_l)))
    # ids unique
    ids = [a["id"] for a in args]
    ctx.check(len(set(ids)) == len(ids), "CLI-ARGS", owner, "ids-unique", b.span, "argument ids must be unique; %s" % ids)
    # the documented flags exist and mean what the property says
    want = {"p": "patterns", "f": "pattern_file", "n": "line_number", "h": "no_filename"}
    for sh, aid in want.items():
        ctx.check(seen_s.get(sh) == aid, "CLI-ARGS", owner, "flag:-" + sh, b.span,
                  "-%s must be the short flag of `%s`; it belongs to `%s`" % (sh, aid, seen_s.get(sh)))
    ctx.check(seen_l.get("color") == "color", "CLI-ARGS", owner, "flag:--color", b.span, "--color must exist")
    pos = [a for a in args if not a.get("short") and not a.get("long")]
    ctx.check(len(pos) == 1 and "num_args" in pos[0]["calls"], "CLI-ARGS", owner, "positional-files", b.span,
              "exactly one positional (FILE...) argument expected; found %s" % [a["id"] for a in pos])


def _search_iter_on_line(t, line_param=2, pma_param=1):
    """t derives from a daachorse search method applied to (pma, line)"""
    for x in walk(t):
        if x[0] == "call" and isinstance(x[1], str) and x[1].startswith("daachorse::") and len(x[2]) == 2:
            if m(Par(pma_param), x[2][0]) and m(Par(line_param), x[2][1]):
                return x[1].split("::")[-1]
    return None


def rule_cli_guard(ctx, R):
    cli = ctx.cli
    if cli is None:
        return
    fo = [b for b in cli.bodies.values() if b.name == "find_and_output" and not b.is_closure]
    if len(fo) != 1:
        ctx.missing("CLI-GUARD", "daacfind::find_and_output")
        return
    b = fo[0]
    S = Sites(cli, b)
    root = S.root
    # parameters by name
    pnames = {b.local_names.get(i): i for i in range(1, b.arg_count + 1)}
    need = ("pma", "line", "stream")
    if not all(n in pnames for n in need):
        ctx.missing("CLI-GUARD", "find_and_output parameters pma/line/stream (found %s)" % sorted(pnames))
        return
    pma, line, stream = pnames["pma"], pnames["line"], pnames["stream"]
    writes = [s for s in S.calls if any(m(Par(stream), a) for a in s["args"])]
    ctx.check(len(writes) >= 2, "CLI-GUARD", b, "stream-writes-found", b.span, "no writes to the output stream found")
    # positive guards
    guards = []   # (switch bb, positive target, description)
    for sbi, stj, d in switches_on(root, lambda d: d[0] == "call" and core.callee_base(d[1]) == "core::option::Option::is_some"):
        meth = _search_iter_on_line(d[2][0], line, pma)
        if meth and any(x[0] == "call" and core.callee_base(x[1]) == "core::iter::Iterator::next" for x in walk(d[2][0])):
            guards.append((sbi, bool_arms(stj)[0], "%s(line).next().is_some()" % meth))
    # bool flag set only inside a loop over a search iterator
    for sbi, stj, d in switches_on(root, lambda d: True):
        disc = stj["discr"]
        if disc["k"] in ("copy", "move") and not disc["place"]["proj"] and b.locals[disc["place"]["local"]]["ty"] == "bool":
            l = disc["place"]["local"]
            # chase copies
            src = l
            for _ in range(3):
                ds = b.defs().get(src, [])
                if len(ds) == 1 and ds[0][0] == "rv" and ds[0][3]["k"] == "use" and ds[0][3]["op"]["k"] in ("copy", "move") \
                        and not ds[0][3]["op"]["place"]["proj"]:
                    src = ds[0][3]["op"]["place"]["local"]
            ds = b.defs().get(src, [])
            trues = []
            ok = bool(ds)
            for dd in ds:
                if dd[0] == "rv" and dd[3]["k"] == "use" and dd[3]["op"]["k"] == "const" and dd[3]["op"].get("bits") in (0, 1):
                    if dd[3]["op"]["bits"] == 1:
                        trues.append(dd[1])
                else:
                    ok = False
            if not ok or not trues:
                continue
            # every `= true` is on the Some arm of a pull from a search iterator over (pma, line)
            good = True
            meth = None
            for tb in trues:
                g = False
                for pbi, ptj, pd in switches_on(root, lambda d: d[0] == "discr" and d[1][0] == "call" and
                                                core.callee_base(d[1][1]) == "core::iter::Iterator::next"):
                    mm = _search_iter_on_line(pd[1], line, pma)
                    if mm and b.edge_guards((pbi, opt_arms(ptj)[0]), tb):
                        g = True
                        meth = mm
                good = good and g
            if good:
                guards.append((sbi, bool_arms(stj)[0], "flag set inside the loop over %s(line)" % meth))
    ctx.note("print_guards", [g[2] for g in guards])
    for s in writes:
        g = [desc for sbi, tgt, desc in guards if b.edge_guards((sbi, tgt), s["bb"])]
        ctx.check(bool(g), "CLI-GUARD", b, "write-guarded:" + s["name"], b.loc(s["bb"]),
                  "every write to the stream must be control dependent on the line containing a match; `%s` is %s"
                  % (s["name"], "guarded by " + g[0] if g else "reachable without any match test"))
    # the plain branch prints the line itself unchanged: writeln!(stream, "{line}")
    plain = [s for s in writes if s["name"] == "write_fmt" and any(m(C(endswith("Argument::new_display"), Par(line)), x) for x in walk(s["args"][1]))]
    ctx.check(len(plain) >= 1, "CLI-GUARD", b, "prints-line-unchanged", b.span,
              "the uncoloured branch must print the `line` parameter itself")
    # CLI-BUF: a buffer indexed with match offsets (byte offsets, 0..=line.len()) must have line.len()+1 slots
    idxs = [s for s in S.calls if core.callee_base(s["key"]) in ("core::ops::IndexMut::index_mut", "core::ops::Index::index")
            and any(x[0] == "call" and isinstance(x[1], str) and x[1].startswith("daachorse::Match::") for x in walk(s["args"][1]))]
    bufs = []
    for s in idxs:
        if not any(core.same(s["args"][0], x) for x in bufs):
            bufs.append(s["args"][0])
    for buf in bufs:
        defs = []
        if buf[0] == "var":
            defs = [pnorm(t) for k, t, bb in root.T.container_defs(buf[2]) if k in ("call", "rv")]
        else:
            defs = [buf]
        ok = any(m(C("alloc::vec::from_elem", ANY, B("Add", C("core::str::len", Par(line)), K(1))), t) for t in defs)
        ctx.check(ok, "CLI-BUF", b, "offset-buffer-length", b.span,
                  "a buffer indexed by Match::start()/end() (byte offsets up to line.len()) must be created with line.len() + 1 slots "
                  "(byte length, not a character count); created as %s" % [show(t) for t in defs])
    # both search calls are on the same (pma, line)
    for s in S.calls:
        if s["key"].startswith("daachorse::") and len(s["args"]) == 2:
            ctx.check(m(Par(pma), s["args"][0]) and m(Par(line), s["args"][1]), "CLI-GUARD", b, "search-on-line:" + s["name"], b.loc(s["bb"]),
                      "searches must run on the `line` parameter with the given automaton")


def rule_cli_pats(ctx, R):
    cli = ctx.cli
    if cli is None:
        return
    mains = [b for b in cli.bodies.values() if b.name == "main" and not b.is_closure]
    if len(mains) != 1:
        ctx.missing("CLI-PATS", "daacfind::main")
        return
    b = mains[0]
    S = Sites(cli, b)
    news = [s for s in S.calls if s["key"].startswith("daachorse::") and s["name"] == "new"]
    ok = len(news) == 1
    ctx.check(ok, "CLI-PATS", b, "one-automaton", b.span, "main must build exactly one automaton from the collected patterns")
    if not ok:
        return
    pats = news[0]["args"][0]
    pushes = [s for s in S.keyed(lambda k: k == "alloc::vec::Vec::push") if core.same(s["args"][0], pats)]
    srcs = set()
    for s in pushes:
        for x in walk(s["args"][1]):
            if x[0] == "field" and x[3] in ("patterns", "pattern_file"):
                srcs.add(x[3])
    ctx.check(srcs == {"patterns", "pattern_file"}, "CLI-PATS", b, "both-sources", b.span,
              "patterns from -p and from -f must feed the same vector passed to DoubleArrayAhoCorasick::new; sources %s" % sorted(srcs))
    # -p is split exactly on '\n' (documented: "patterns separated with new lines"); a pattern may contain '\r'
    psplit = [s for s in S.calls if s["args"] and any(x[0] == "field" and x[3] == "patterns" for x in walk(s["args"][0])) and s["key"].startswith("core::str::")
              and s["name"] not in ("is_empty", "len", "to_string", "as_bytes")] if S.calls else []
    oks = len(psplit) == 1 and psplit[0]["name"] == "split" and len(psplit[0]["args"]) == 2 and \
        psplit[0]["args"][1][0] == "const" and psplit[0]["args"][1][1] == 10
    ctx.check(oks, "CLI-PATS", b, "p-split-on-newline", b.span,
              "the -p argument must be split with split('\\n') only (no CR stripping / trimming: patterns are arbitrary strings); found %s"
              % [(s["name"], [show(a) for a in s["args"][1:]]) for s in psplit])
    # the build error is propagated, not unwrapped
    site = (b.path, news[0]["bb"])
    bad = [s for s in S.calls if core.callee_base(s["key"]) in ("core::result::Result::unwrap", "core::result::Result::expect",
                                                                 "core::result::Result::unwrap_or_default", "core::result::Result::ok")
           and any(x[0] == "call" and x[3] == site for x in walk(s["args"][0]))]
    def direct(t):
        if t[0] == "call" and t[3] == site:
            return True
        return t[0] == "call" and core.callee_base(t[1]) in ("core::result::Result::map_err", "core::result::Result::map") and direct(t[2][0])
    sw = switches_on(S.root, lambda d: d[0] == "discr" and d[1][0] == "call" and core.callee_base(d[1][1]) == "core::ops::Try::branch"
                     and direct(d[1][2][0]))
    ctx.check(not bad and len(sw) == 1, "CLI-PATS", b, "build-error-propagated", b.loc(news[0]["bb"]),
              "a failing build must be reported through main's Result, not unwrapped")
    # every line is searched: find_and_output is called for each line of stdin / each file
    fo = [s for s in S.calls if s["name"] == "find_and_output"]
    ctx.check(len(fo) >= 2 and all(b.in_cycle(s["bb"]) for s in fo), "CLI-PATS", b, "every-line-searched", b.span,
              "find_and_output must be called in the per-line loops (stdin and files)")
