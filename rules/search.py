"""Search-side rule groups: ITER-*, TRANS-*, SAFE-IDX-*, SAFE-PARAM, SAFE-FIELD, VAL-MATCH,
LAZY-PULL/END/NOBUF (DESIGN §3).  Every rule is a query over MIR facts of /repo's current tree."""
from . import core
from .core import Callee, walk, show, mk_phi
from .view import FnView, pnorm, payload, mk_payload, inline_calls, OPTION

GET_UNCHECKED = "core::slice::get_unchecked"
STR_GET_UNCHECKED = "core::str::get_unchecked"
ITER_NEXT = "core::iter::Iterator::next"


# ----------------------------------------------------------------------------- small helpers

def is_const(t, val=None):
    return t[0] == "const" and (val is None or t[1] == val)


def members(t):
    """phi members (a non-phi term is its own single member)"""
    return list(t[1]) if t[0] == "phi" else [t]


def self_param(t):
    return t[0] == "param" and t[1] == 1


def table_of(t, v):
    """'states' / 'outputs' / 'mapper' if t denotes that table of an automaton of variant v"""
    if t[0] == "field" and t[2] == v.A and t[3] in ("states", "outputs", "mapper"):
        return t[3]
    return None


def automaton_base_ok(t, v):
    """the automaton object a table is read from: `self` (methods of A), `self.pma` (iterators),
    a closure up-var resolving to one of those"""
    base = t[1]
    if self_param(base):
        return True
    if base[0] == "field" and self_param(base[1]):
        return True
    return False


def opt_arms(term_json):
    """(some_target, none_target) of a switch on an Option discriminant (either may be None)"""
    some = none = None
    for val, b in term_json["targets"]:
        if val == 1:
            some = b
        elif val == 0:
            none = b
    oth = term_json["otherwise"]
    if some is None:
        some = oth
    elif none is None:
        none = oth
    return some, none


def bool_arms(term_json):
    """(true_target, false_target) of a switch on a bool"""
    f = None
    for val, b in term_json["targets"]:
        if val == 0:
            f = b
    return term_json["otherwise"], f


def switches_on(view, pred):
    """[(bb, term_json, discr_term)] switches whose (normalised) discriminant satisfies pred"""
    out = []
    b = view.body
    for bi in sorted(b.live_blocks()):
        t = b.blocks[bi]["term"]
        if t["k"] == "switch":
            d = view.op(t["discr"])
            if pred(d):
                out.append((bi, t, d))
    return out


def pull_switches(view, site):
    """[(switch bb, Some arm, None arm)] for the tests of the Option produced by the call at `site`: a direct match / `if let` /
    `while let` on it, or `?` (the Continue arm of Try::branch is the Some arm, the Break arm returns None)"""
    out = []
    for sbi, st, d in switches_on(view, lambda d: d[0] == "discr" and d[1][0] == "call"):
        x = d[1]
        if x[3] == site:
            some, none = opt_arms(st)
            out.append((sbi, some, none))
        elif isinstance(x[1], str) and core.callee_base(x[1]) == "core::ops::Try::branch" and x[2] and x[2][0][0] == "call" and x[2][0][3] == site:
            brk, cont = opt_arms(st)          # discriminant 1 = Break, 0 = Continue
            out.append((sbi, cont, brk))
    return out


def accessor_inline(lib, t, adts):
    """inline crate-local accessor methods of the given ADTs (e.g. Output::length -> .length)"""
    def which(key):
        return any(key.startswith(a + "::") for a in adts)
    return pnorm(inline_calls(lib, t, which))


class NextInfo:
    pass


def analyse_next(ctx, v, kind, body):
    """collect the sites of one search iterator's `next` (including its closures)"""
    lib = ctx.lib
    info = NextInfo()
    info.body = body
    info.kind = kind
    info.I = v.iters[kind]
    fv = FnView(lib, body)
    info.fv = fv
    # source field: the field of I that is neither the automaton reference nor a scalar
    info.src_field = None
    info.pma_field = None
    for f in lib.adts[info.I]["variants"][0]["fields"]:
        tj = f["tyj"]
        if tj["k"] == "ref" and tj["to"].get("path") == v.A:
            info.pma_field = f["name"]
        elif tj["k"] in ("adt", "param") and f["name"] not in ("state_id", "pos", "output_pos"):
            if not (tj["k"] == "adt" and tj["path"] in (OPTION,)):
                info.src_field = f["name"]
    info.trans = []      # (view, bb, callee, tj)
    info.pulls = []      # (view, bb, recv_term)
    info.unchecked = []  # (view, bb, table, idx_term, tj)
    info.reports = []    # (view, bb, si, match_agg_term)
    info.nones = []      # (view, bb, si)
    info.parent_calls = []
    for vw, bi, c, tj in fv.calls():
        if c.body_path in v.trans:
            info.trans.append((vw, bi, c, tj))
        elif core.callee_base(c.key) == ITER_NEXT:
            recv = vw.op(tj["args"][0])
            info.pulls.append((vw, bi, recv))
        elif core.callee_base(c.key) == "core::slice::get" and vw.body.in_cycle(bi) and vw is fv.root:
            # an indexed scan `while let Some(&c) = haystack.get(pos) {..; pos += 1}`: the read is the pull, its receiver the pair
            # (slice, index); the rules that accept this form check that the index is a counter stepped on every round
            info.pulls.append((vw, bi, ("call", "<indexed>", (vw.op(tj["args"][0]), vw.op(tj["args"][1])), (vw.body.path, bi))))
        elif c.key == GET_UNCHECKED:
            tab = vw.op(tj["args"][0])
            info.unchecked.append((vw, bi, tab, vw.op(tj["args"][1]), tj))
        elif c.adt == v.O and c.name == "parent":
            info.parent_calls.append((vw, bi, tj))
    for vw in fv.views:
        for bi, si, st in vw.body.stmts():
            if st["k"] != "assign":
                continue
            rv = st["rv"]
            if rv["k"] == "aggregate" and rv.get("akind") == "adt" and rv["adt"] == "Match":
                info.reports.append((vw, bi, si, pnorm(vw.T.rvalue(rv))))
            if not st["lhs"]["proj"] and rv["k"] == "aggregate" \
                    and rv.get("adt") == OPTION and rv.get("variant") == "None" and vw is fv.root and _flows_to_return(vw.body, st["lhs"]["local"]):
                info.nones.append((vw, bi, si))
    return info


def _flows_to_return(b, local, depth=0):
    """the local is the return place, or is handed to it through plain moves (the result of an inlined helper travels through a
    temporary)"""
    if local == 0:
        return True
    if depth > 4:
        return False
    for bi, si, st in b.stmts():
        if st["k"] == "assign" and not st["lhs"]["proj"] and st["rv"]["k"] == "use" and st["rv"]["op"]["k"] in ("move", "copy") and \
                not st["rv"]["op"]["place"]["proj"] and st["rv"]["op"]["place"]["local"] == local:
            if _flows_to_return(b, st["lhs"]["local"], depth + 1):
                return True
    return False


# ----------------------------------------------------------------------------- SAFE-IDX / Allowed

class Allowed:
    """Allowed(states) of DESIGN §3/C07: index terms that are in range given I1–I3."""

    def __init__(self, ctx, v):
        self.ctx = ctx
        self.v = v
        self.lib = ctx.lib

    def label_ok(self, t):
        v = self.v
        if v.tag == "bw":
            # a u8 widened: any term whose type is u8 – we accept params/items/fields; reject
            # arithmetic that could exceed 255 (casts from wider ints were kept by norm)
            for x in walk(t):
                if x[0] == "cast":
                    return False
                if x[0] in ("bin", "ovf"):
                    return False
            return True
        # cw: payload of CodeMapper::get or the mapped_c parameter of an unsafe fn of A
        for m in members(t):
            if m[0] == "param":
                continue
            if m[0] == "call" and isinstance(m[1], str) and m[1].endswith("CodeMapper::get"):
                continue
            if m[0] == "payload" and m[1][0] == "call" and str(m[1][1]).endswith("CodeMapper::get"):
                continue
            return False
        return True

    def state_elem(self, t):
        """t is `states[allowed]` read through get_unchecked of the automaton's state table"""
        if t[0] == "call" and t[1] == GET_UNCHECKED:
            tab, idx = t[2][0], t[2][1]
            return table_of(tab, self.v) == "states" and self.index(idx)
        return False

    def index(self, t, depth=0):
        v = self.v
        if depth > 30:
            return False
        ms = members(t)
        if len(ms) > 1:
            return all(self.index(m, depth + 1) for m in ms)
        k = t[0]
        if k == "const":
            return isinstance(t[1], int) and 0 <= t[1] < 2     # ROOT/DEAD, both < block length
        if k == "loop":
            return True       # loop-carried value of a local all of whose definitions are checked
        if k == "param":
            return True       # obligation transferred to the callers (SAFE-PARAM) / closure binding
        if k == "field" and t[3] == "state_id" and self_param(t[1]):
            return True       # iterator field, every write is checked by SAFE-FIELD
        if k == "call" and isinstance(t[1], str):
            site = t[3]
            sb = self.lib.bodies.get(site[0])
            c = Callee(sb.blocks[site[1]]["term"]["func"]["fn"]) if sb else None
            if c and (c.body_path in v.trans):
                return True   # result of a transition function (its own returns are checked)
            if c and c.adt == v.S and c.name == "fail":
                return self.state_elem(t[2][0])
            return False
        if k == "payload":
            # payload of child(...) i.e. Option<u32> returned by the child function
            x = t[1]
            if x[0] == "call":
                sb = self.lib.bodies.get(x[3][0])
                c = Callee(sb.blocks[x[3][1]]["term"]["func"]["fn"]) if sb else None
                if c and c.body_path in v.child:
                    return True
            return False
        if k == "bin" and t[1] == "BitXor":
            a, b = t[2], t[3]
            for base, lab in ((a, b), (b, a)):
                if self.base_payload(base) and self.label_ok(lab):
                    return True
            return False
        return False

    def base_payload(self, t):
        """payload of State::base(states[allowed])"""
        for m in members(t):
            if m[0] == "param":
                continue      # closure parameter bound by and_then – resolved by binding normally
            if m[0] == "payload":
                x = m[1]
                if x[0] == "call" and isinstance(x[1], str) and x[1] == self.v.S + "::base" and \
                        self.state_elem(x[2][0]):
                    continue
            return False
        return True


def output_pos_term_ok(ctx, v, t, allowed):
    """P of SAFE-IDX-O: payload(State::output_pos(states[allowed])) | payload(Output::parent(rec))
    | payload(self.output_pos) | closure param bound to one of those | phi"""
    for m in members(t):
        if m[0] == "payload":
            x = m[1]
            ok = False
            for y in members(x):
                if y[0] == "call" and y[1] == v.S + "::output_pos" and allowed.state_elem(y[2][0]):
                    ok = True
                elif y[0] == "call" and y[1] == v.O + "::parent":
                    ok = True
                elif y[0] == "field" and y[3] == "output_pos" and self_param(y[1]):
                    ok = True
                elif y[0] == "agg" and y[1] == OPTION and y[2] == "None":
                    ok = True
                elif y[0] == "mutby" and core.callee_base(y[1]) == "core::option::Option::replace":
                    ok = output_pos_term_ok(ctx, v, mk_phi([("payload", ("some", y[2][1]))]), allowed) \
                        if False else _replace_arg_ok(ctx, v, y, allowed)
                else:
                    ok = False
                if not ok:
                    return False
            continue
        if m[0] == "loop":
            continue
        return False
    return True


def _replace_arg_ok(ctx, v, y, allowed):
    """last_output_pos.replace(x): x must itself be an output position"""
    x = y[2][1]
    # x is NonZero payload of State::output_pos(..)
    return output_pos_term_ok(ctx, v, x if x[0] == "phi" else mk_phi([x]), allowed) if x[0] in ("payload", "phi") else False


def rule_safe_idx(ctx, roles):
    """SAFE-IDX-S / SAFE-IDX-O / SAFE-INV (table part): every get_unchecked on an automaton table
    anywhere in the library has an index in Allowed / Sub(P,1)."""
    lib = ctx.lib
    seen_sites = 0
    for v in roles.variants():
        if not v.ok:
            continue
        allowed = Allowed(ctx, v)
        fns = list(v.next.values()) + list(v.unsafe_A.values())
        for b in fns:
            fv = FnView(lib, b)
            for vw, bi, c, tj in fv.calls(lambda c: c.key == GET_UNCHECKED):
                tab = vw.op(tj["args"][0])
                idx = vw.op(tj["args"][1])
                which = table_of(tab, v)
                loc = vw.body.loc(bi)
                seen_sites += 1
                if which == "states":
                    ctx.check(automaton_base_ok(tab, v) and allowed.index(idx), "SAFE-IDX-S", vw.body,
                              "states-index", loc,
                              "index of get_unchecked on %s.states must be in Allowed(states); found %s"
                              % (v.A, show(idx)), show(idx))
                elif which == "outputs":
                    ok = idx[0] == "bin" and idx[1] == "Sub" and is_const(idx[3], 1) and \
                        output_pos_term_ok(ctx, v, mk_phi([idx[2]]) if idx[2][0] != "phi" else idx[2], allowed)
                    ctx.check(automaton_base_ok(tab, v) and ok, "SAFE-IDX-O", vw.body, "outputs-index", loc,
                              "index of get_unchecked on %s.outputs must be (output position) - 1; found %s"
                              % (v.A, show(idx)), show(idx))
                else:
                    ctx.bad("SAFE-INV", vw.body, "unjustified-unsafe:get_unchecked", loc,
                            "get_unchecked on a container that is not an automaton table: %s" % show(tab))
    ctx.note("unchecked_table_sites_seen", seen_sites)


def rule_safe_param(ctx, roles):
    """SAFE-PARAM: at each call of a crate-local unsafe transition/child function the state_id
    argument is in Allowed(states) and (cw) the label is a CodeMapper::get payload / parameter."""
    lib = ctx.lib
    n = 0
    for v in roles.variants():
        if not v.ok:
            continue
        allowed = Allowed(ctx, v)
        callers = list(v.next.values()) + list(v.unsafe_A.values())
        for b in callers:
            fv = FnView(lib, b)
            for vw, bi, c, tj in fv.calls(lambda c: c.body_path in v.unsafe_A):
                n += 1
                st = vw.op(tj["args"][1])
                loc = vw.body.loc(bi)
                ctx.check(allowed.index(st), "SAFE-PARAM", vw.body, "state-arg:" + c.name, loc,
                          "state argument of unsafe %s must be in Allowed(states); found %s" % (c.name, show(st)),
                          show(st))
                if c.body_path in v.child:
                    lab = vw.op(tj["args"][2])
                    ctx.check(allowed.label_ok(lab), "SAFE-PARAM", vw.body, "label-arg:" + c.name, loc,
                              "label argument of %s must be %s; found %s" % (
                                  c.name, "a u8" if v.tag == "bw" else "a CodeMapper::get payload", show(lab)),
                              show(lab))
                # the automaton argument must be the iterator's own automaton / self
                a0 = vw.op(tj["args"][0])
                ctx.check(self_param(a0) or (a0[0] == "field" and self_param(a0[1])), "SAFE-PARAM", vw.body,
                          "automaton-arg:" + c.name, loc, "automaton argument must be self / self.pma; found %s" % show(a0))
    ctx.note("unsafe_local_call_sites_seen", n)


def rule_safe_field(ctx, roles):
    """SAFE-FIELD: every write to an iterator's state_id / output_pos field is Allowed / an output
    position; no &mut borrow of those fields escapes to a call."""
    lib = ctx.lib
    fw = lib.field_writes()
    for v in roles.variants():
        if not v.ok:
            continue
        allowed = Allowed(ctx, v)
        for kind, I in v.iters.items():
            for fname in ("state_id", "output_pos"):
                if lib.adt_field(I, fname) is None:
                    continue
                ws = fw.get((I, fname), [])
                if not ws:
                    ctx.missing("SAFE-FIELD", "writer of %s.%s" % (I, fname))
                for b, bi, wk, payload_ in ws:
                    fv = FnView(lib, b if not b.is_closure else b)
                    vw = fv.root
                    loc = b.loc(bi)
                    if wk == "mutborrow":
                        ctx.bad("SAFE-FIELD", b, "mutborrow:%s.%s" % (I.split("::")[-1], fname), loc,
                                "&mut borrow of %s.%s: writes through it are not tracked" % (I, fname))
                        continue
                    if wk == "assign":
                        t = pnorm(vw.T.rvalue(payload_["rv"]))
                    else:
                        t = pnorm(vw.T.operand(payload_[1]))
                    if fname == "state_id":
                        ok = allowed.index(t)
                        want = "Allowed(states)"
                    else:
                        # an output position is born in exactly two places: the parent link of a record and the output_pos of a
                        # (valid) state — the same provenance SAFE-IDX-O accepts for the index of a scan report
                        def of_state(m_):
                            if not (m_[0] == "call" and m_[1] == v.S + "::output_pos" and len(m_[2]) == 1):
                                return False
                            a_ = m_[2][0]
                            return a_[0] == "call" and a_[1] == GET_UNCHECKED and table_of(a_[2][0], v) == "states" and allowed.index(a_[2][1])
                        ok = all(
                            (m[0] == "agg" and m[1] == OPTION and m[2] == "None") or
                            (m[0] == "call" and m[1] == v.O + "::parent") or of_state(m)
                            for m in members(t))
                        want = "None, Output::parent(record) or State::output_pos of a valid state"
                    ctx.check(ok, "SAFE-FIELD", b, "write:%s.%s" % (I.split("::")[-1], fname), loc,
                              "write to %s.%s must be %s; found %s" % (I, fname, want, show(t)), show(t))


# ----------------------------------------------------------------------------- TRANS

def rule_trans(ctx, roles):
    """TRANS: child index is base ^ label, validity test is check(child) == label (bw) / parent
    index (cw); transitions return only a child or ROOT, back edge is state := fail(state);
    the leftmost transition additionally returns ROOT when fail == DEAD; cw returns ROOT for
    unmapped characters before any table access."""
    lib = ctx.lib
    for v in roles.variants():
        if not v.ok:
            continue
        allowed = Allowed(ctx, v)
        if len(v.child) != 1:
            ctx.missing("TRANS-CHILD", "unique child function of " + v.A)
            continue
        cb = next(iter(v.child.values()))
        fv = FnView(lib, cb)
        # --- child: returned payload is base^label, guarded by check comparison
        ret = fv.resolve(fv.root.ret())
        ret = pnorm(ret)
        pay = mk_payload(ret)
        xs = [m for m in members(pay) if m[0] != "undef"]
        okx = bool(xs)
        for m in xs:
            if not (m[0] == "bin" and m[1] == "BitXor"):
                okx = False
                continue
            a, b = m[2], m[3]
            good = False
            for base, lab in ((a, b), (b, a)):
                if allowed.base_payload(base) and lab[0] == "param" and lab[1] == 3:
                    # base must be read at the state_id parameter
                    bp = [y for y in walk(base) if y[0] == "call" and y[1] == GET_UNCHECKED]
                    if bp and all(z[2][1][0] == "param" and z[2][1][1] == 2 for z in bp):
                        good = True
            okx = okx and good
        ctx.check(okx, "TRANS-CHILD", cb, "child-index", cb.span,
                  "child function must return base(states[state_id]) ^ label; returns %s" % show(pay), show(pay))
        # --- validity test: Eq(check(states[child_idx]), label | state_id)
        eqs = []
        for vw in fv.views:
            for bi, si, st in vw.body.stmts():
                if st["k"] == "assign" and st["rv"]["k"] == "binop" and st["rv"]["op"] in ("Eq", "Ne"):
                    eqs.append((vw, bi, st["rv"]["op"], vw.op(st["rv"]["l"]), vw.op(st["rv"]["r"])))
        want_param = 3 if v.tag == "bw" else 2
        found = False
        for vw, bi, op, l, r in eqs:
            for chk, other in ((l, r), (r, l)):
                if chk[0] == "call" and chk[1] == v.S + "::check" and chk[2][0][0] == "call" and \
                        chk[2][0][1] == GET_UNCHECKED and table_of(chk[2][0][2][0], v) == "states":
                    idx = chk[2][0][2][1]
                    idx_is_child = any(m[0] == "bin" and m[1] == "BitXor" for m in members(idx))
                    oth_ok = other[0] == "param" and other[1] == want_param
                    if op in ("Eq", "Ne"):
                        # (the polarity of the test is TRANS-CHECK some-guarded-by-check's business: Some only on the equal side)
                        found = True
                        ctx.check(idx_is_child and oth_ok, "TRANS-CHECK", vw.body, "check-compare", vw.body.loc(bi),
                                  "validity test must compare check(states[base^label]) with %s; found check(states[%s]) == %s"
                                  % ("the label" if v.tag == "bw" else "the parent index", show(idx), show(other)))
        if not found:
            ctx.bad("TRANS-CHECK", cb, "check-compare", cb.span,
                    "no `check(states[child]) == %s` test found in the child function"
                    % ("label" if v.tag == "bw" else "parent index"))
        # the Some result must be control dependent on the comparison being true: resolved for
        # both shapes (Option::filter closure returning the Eq; explicit if/else)
        _child_guard(ctx, v, fv, cb)
        # --- transition functions
        for tp, tb in v.trans.items():
            _trans_fn(ctx, v, roles, tb, allowed)


def _child_guard(ctx, v, fv, cb):
    root = fv.root
    b = cb
    # shape 1: filter(Some(x), |x| check == ..) – the filter closure's return is the Eq
    filt = fv.calls(lambda c: core.callee_base(c.key) == "core::option::Option::filter")
    if filt:
        for vw, bi, c, tj in filt:
            clos = vw.op(tj["args"][1])
            cr = fv.closure_ret(clos[1]) if clos[0] == "closure" else None
            ok = cr is not None and cr[0] == "bin" and cr[1] == "Eq"
            ctx.check(ok, "TRANS-CHECK", vw.body, "some-guarded-by-check", vw.body.loc(bi),
                      "Option::filter predicate must be the CHECK comparison; found %s" % (show(cr) if cr else "?"))
        return
    # shape 2: switch on Eq(...) -> Some on true arm, None on false arm
    sw = switches_on(root, lambda d: d[0] == "bin" and d[1] in ("Eq", "Ne"))
    ok = False
    for bi, t, d in sw:
        tt, ff = bool_arms(t)
        if d[1] == "Ne":
            tt, ff = ff, tt
        somes = [bj for bj, si, st in b.stmts() if st["k"] == "assign" and st["lhs"]["local"] == 0 and
                 st["rv"]["k"] == "aggregate" and st["rv"].get("variant") == "Some"]
        if somes and all(b.edge_guards((bi, tt), s) for s in somes):
            ok = True
    ctx.check(ok, "TRANS-CHECK", b, "some-guarded-by-check", b.span,
              "every `Some(child)` exit of the child function must be guarded by the true arm of the CHECK comparison")


def _branch_between(b, src, dst):
    """is there a conditional branch on some path from block src to block dst (exclusive of dst)?"""
    seen = set()
    work = [src]
    while work:
        x = work.pop()
        if x in seen or x == dst:
            continue
        seen.add(x)
        if dst not in b.reach(x):
            continue
        succ = [s_ for s_ in b.succ(x)]
        if len(succ) > 1:
            return True
        work.extend(succ)
    return False


def ttj_state_local(body, tj):
    """the user-level local holding the walk state: argument 1 of the child call, copies chased"""
    a = tj["args"][1]
    if a["k"] not in ("copy", "move") or a["place"]["proj"]:
        return None
    l = a["place"]["local"]
    for _ in range(4):
        if l in body.local_names or l <= body.arg_count:
            break
        ds = body.defs().get(l, [])
        if len(ds) == 1 and ds[0][0] == "rv" and ds[0][3]["k"] == "use" and ds[0][3]["op"]["k"] in ("copy", "move") and not ds[0][3]["op"]["place"]["proj"]:
            l = ds[0][3]["op"]["place"]["local"]
        else:
            break
    return l


def _trans_semantic(ctx, v, tb, fv, is_leftmost):
    """Decision table of a transition function, evaluated on its MIR under assumptions on the three atomic conditions
         C: child(state, label) is Some      R: state == ROOT      D: fail(state) == DEAD   (leftmost only)
       C            -> returns the child          (no further fail read)
       !C, R        -> returns ROOT
       !C, !R, D    -> returns ROOT               (leftmost only)
       !C, !R[, !D] -> never returns: reads fail(state) and tries again
    (cw: an unmapped character returns ROOT before any of this — CW-MAP.)  Independent of the loop's source form
    (`loop` with early returns, `while child.is_none() && state != ROOT`, `unwrap_or(ROOT)`, ...).  True iff every row holds."""
    from . import cond
    root = fv.root
    b = tb
    childcalls = [(vw, bi) for vw, bi, c, tj in fv.calls(lambda c: c.body_path in v.child) if vw is root]
    if not childcalls:
        return False
    csites = {(b.path, bi) for _, bi in childcalls}

    def is_child(t):
        return t[0] == "call" and t[3] in csites

    def state_like(x):
        ms = members(x)
        return all(y[0] in ("param", "loop") or (y[0] == "call" and y[1] == v.S + "::fail") for y in ms) and \
            any(y[0] == "param" and y[1] == 2 for y in ms)

    def at_root(t):
        return t[0] == "bin" and t[1] == "Eq" and ((is_const(t[2], 0) and state_like(t[3])) or (is_const(t[3], 0) and state_like(t[2])))

    def fail_dead(t):
        return t[0] == "bin" and t[1] == "Eq" and any(is_const(c_, 1) and any(y[0] == "call" and y[1] == v.S + "::fail" for y in members(o_))
                                                      for c_, o_ in ((t[2], t[3]), (t[3], t[2])))
    rets = set(b.return_blocks())
    fail_reads = {bi for vw, bi, c, tj in fv.calls(lambda c: c.adt == v.S and c.name == "fail") if vw is root}
    ret_op = {"k": "move", "place": {"local": 0, "proj": []}}
    # cw: start after the mapper test (its None arm is CW-MAP's business)
    starts = [0]
    if v.tag == "cw":
        sws = switches_on(root, lambda d: d[0] == "discr" and d[1][0] == "call" and str(d[1][1]).endswith("CodeMapper::get"))
        if len(sws) != 1:
            return False
        starts = [opt_arms(sws[0][1])[0]]

    def row(C, R, D):
        atoms = [(at_root, R)] if R is not None else []
        if D is not None:
            atoms.append((fail_dead, D))
        some = [(is_child, C)]
        vis = cond.explore(root, starts, atoms, some_atoms=some)
        if vis is None:
            return None, None
        ex = cond.Explorer(root, atoms, some)
        vals = set()
        if vis & rets:
            for t in cond.values_under(root, starts, atoms, ret_op, some_atoms=some):
                vals.add(pnorm(ex.value_of(t)))
        return vis, vals

    def all_child(vals):
        return bool(vals) and all(all(y[0] == "payload" and is_child(y[1]) for y in members(x)) for x in vals)

    def all_root(vals):
        return bool(vals) and all(all(is_const(y, 0) for y in members(x)) for x in vals)
    # C: returns the child, whatever R/D are, without another fail read
    vis, vals = row(True, None, None)
    if vis is None or not (vis & rets) or not all_child(vals) or (vis & fail_reads):
        return False
    # !C, R: returns ROOT
    vis, vals = row(False, True, None if not is_leftmost else None)
    if vis is None or not (vis & rets) or not all_root(vals):
        return False
    if is_leftmost:
        vis, vals = row(False, False, True)
        if vis is None or not (vis & rets) or not all_root(vals):
            return False
        vis, vals = row(False, False, False)
    else:
        if switches_on(root, fail_dead):
            return False
        vis, vals = row(False, False, None)
    # keeps walking: no return, the fail link is read and the child lookup is retried
    if vis is None or (vis & rets) or not (vis & fail_reads):
        return False
    return True


def _trans_fn(ctx, v, roles, tb, allowed):
    lib = ctx.lib
    fv = FnView(lib, tb)
    root = fv.root
    is_leftmost = tb.path in v.trans_of_kind.get("leftmost", set())
    tag = "leftmost" if is_leftmost else "standard"
    _sem = []

    def sem():
        # lazily: the decision table of the whole function (alternative proof of the return/exit clauses below)
        if not _sem:
            try:
                _sem.append(bool(_trans_semantic(ctx, v, tb, fv, is_leftmost)))
            except Exception:
                _sem.append(False)
        return _sem[0]
    ctx.check(sem(), "TRANS-TABLE", tb, "decision-table:" + tag, tb.span,
              "evaluated under assumptions on (child exists, state == ROOT%s) the transition must: return the child when it exists; "
              "return ROOT at ROOT without a child%s; otherwise read fail(state) and retry — and return in no other case"
              % (", fail == DEAD" if is_leftmost else "", "; return ROOT when the fail link is DEAD" if is_leftmost else ""))
    # returns: members of the return term
    ret = pnorm(root.ret())
    for m in members(ret):
        if m[0] == "const":
            ctx.check(m[1] == 0, "TRANS-RET", tb, "const-return:" + tag, tb.span,
                      "a constant returned by a transition function must be ROOT (0); found %s" % show(m))
        elif m[0] == "payload" and m[1][0] == "call":
            sb = lib.bodies.get(m[1][3][0])
            c = Callee(sb.blocks[m[1][3][1]]["term"]["func"]["fn"])
            ctx.check(c.body_path in v.child, "TRANS-RET", tb, "child-return:" + tag, tb.span,
                      "non-constant return must be the child function's payload; found %s" % show(m))
        else:
            ctx.check(sem(), "TRANS-RET", tb, "other-return:" + tag, tb.span,
                      "transition function returns something that is neither child nor ROOT: %s" % show(m))
    # child call arguments: (self, state, label)
    childcalls = fv.calls(lambda c: c.body_path in v.child)
    if not childcalls:
        ctx.bad("TRANS-LOOP", tb, "child-call:" + tag, tb.span, "transition function never calls the child function")
    state_local_terms = []
    for vw, bi, c, tj in childcalls:
        st = vw.op(tj["args"][1])
        lab = vw.op(tj["args"][2])
        state_local_terms.append(st)
        # state: param 2 or fail(states[loop state])
        ok = True
        for m in members(st):
            if m[0] == "param" and m[1] == 2:
                continue
            if m[0] == "loop":
                continue
            if m[0] == "call" and m[1] == v.S + "::fail" and allowed.state_elem(m[2][0]):
                # fail must be read at the current state
                idx = m[2][0][2][1]
                if all(y[0] in ("param", "loop") or (y[0] == "call" and y[1] == v.S + "::fail") for y in members(idx)):
                    continue
            ok = False
        ctx.check(ok, "TRANS-LOOP", vw.body, "back-edge:" + tag, vw.body.loc(bi),
                  "state fed to the child function must be the parameter or fail(states[state]); found %s" % show(st), show(st))
        if v.tag == "bw":
            okl = lab[0] == "param" and lab[1] == 3
            want = "the byte parameter"
        else:
            okl = all((m[0] == "payload" and m[1][0] == "call" and str(m[1][1]).endswith("CodeMapper::get")
                       and m[1][2][1][0] == "param" and m[1][2][1][1] == 3) for m in members(lab))
            want = "payload of mapper.get(c)"
        ctx.check(okl, "TRANS-LOOP", vw.body, "label:" + tag, vw.body.loc(bi),
                  "label fed to the child function must be %s; found %s" % (want, show(lab)), show(lab))
    # the walk advances on every trip: each cycle through the child call passes an assignment `state := fail(states[state])`
    if childcalls:
        cbb = childcalls[0][1]
        adv_blocks = []
        for bi_, si_, st_ in tb.stmts():
            if st_["k"] == "assign" and not st_["lhs"]["proj"]:
                t_ = pnorm(root.T.rvalue(st_["rv"]))
                if t_[0] == "call" and t_[1] == v.S + "::fail" and tb.in_cycle(bi_):
                    adv_blocks.append(bi_)
        # also `state = self.states[..].fail()` written directly from the call destination
        for vw_, bi_, c_, tj_ in fv.calls(lambda c: c.adt == v.S and c.name == "fail"):
            if vw_ is root and tb.in_cycle(bi_):
                adv_blocks.append(bi_)
        stuck = tb.reaches(cbb, cbb, avoid=set(adv_blocks)) if adv_blocks else True
        # every assignment to the loop state inside the cycle must be the fail value (no conditional keep)
        ctx.check(not stuck, "TRANS-LOOP", tb, "walk-advances:" + tag, tb.span,
                  "every trip around the fail walk must read fail(states[state]) (a trip that keeps the state would spin forever)")
        if adv_blocks:
            # the value read is what the next trip uses: the loop state local is (re)assigned on every path from the read back to the child call
            stl = ttj_state_local(tb, childcalls[0][3])
            if stl is not None:
                assigns = [bi_ for bi_, si_, st_ in tb.stmts() if st_["k"] == "assign" and not st_["lhs"]["proj"] and st_["lhs"]["local"] == stl and tb.in_cycle(bi_)]
                ok_adv = bool(assigns) and not tb.reaches(cbb, cbb, avoid=set(assigns))
                ctx.check(ok_adv, "TRANS-LOOP", tb, "state-reassigned-every-trip:" + tag, tb.span,
                          "on every path back to the child lookup the loop state must have been replaced by the fail link")
    # ROOT exit: a `return ROOT` guarded by state == ROOT, inside the loop
    b = tb
    eq_root = switches_on(root, lambda d: d[0] == "bin" and d[1] == "Eq" and
                          ((is_const(d[2], 0)) or is_const(d[3], 0)))
    has_root_exit = False
    for bi, t, d in eq_root:
        other = d[3] if is_const(d[2], 0) else d[2]
        if all(m[0] in ("param", "loop") or (m[0] == "call" and m[1] == v.S + "::fail") for m in members(other)) \
                and any(m[0] == "param" and m[1] == 2 for m in members(other)):
            tt, ff = bool_arms(t)
            # the true arm must reach return without another child call, the false arm must go on
            if b.in_cycle(bi) or True:
                has_root_exit = True
    ctx.check(has_root_exit or sem(), "TRANS-LOOP", tb, "root-exit:" + tag, tb.span,
              "the fail walk must stop with ROOT when the current state is ROOT (`state == ROOT` test on the loop state)")
    # leftmost: DEAD test on the fail value
    eq_dead = switches_on(root, lambda d: d[0] == "bin" and d[1] == "Eq" and (is_const(d[2], 1) or is_const(d[3], 1)))
    dead_on_fail = False
    for bi, t, d in eq_dead:
        other = d[3] if is_const(d[2], 1) else d[2]
        if any(m[0] == "call" and m[1] == v.S + "::fail" for m in members(other)):
            tt, ff = bool_arms(t)
            # true arm must lead to return without re-entering the loop head via child call
            cc_blocks = {bi2 for vw, bi2, c, tj in childcalls if vw is root}
            reach_tt = b.reachable_from(tt)
            dead_on_fail = not (cc_blocks & reach_tt)
    if is_leftmost:
        ctx.check(dead_on_fail or sem(), "TRANS-LM", tb, "dead-exit", tb.span,
                  "the leftmost transition must return ROOT (leave the loop) when fail(state) == DEAD")
    else:
        ctx.check(not eq_dead, "TRANS-STD", tb, "no-dead-test", tb.span,
                  "the standard transition must not special-case the DEAD state")
    # every `return ROOT` of a transition has one of the permitted reasons: the walk reached ROOT, (leftmost) the fail link
    # is DEAD, (cw) the character is unmapped — nothing else may cut the fail walk short
    root_assigns = [(bi_, si_) for bi_, si_, st_ in tb.stmts() if st_["k"] == "assign" and st_["lhs"]["local"] == 0 and not st_["lhs"]["proj"]
                    and st_["rv"]["k"] == "use" and st_["rv"]["op"]["k"] == "const" and st_["rv"]["op"].get("bits") == 0]
    allowed_edges = []
    for bi_, t_, d_ in eq_root:
        other_ = d_[3] if is_const(d_[2], 0) else d_[2]
        if all(m_[0] in ("param", "loop") or (m_[0] == "call" and m_[1] == v.S + "::fail") for m_ in members(other_)):
            allowed_edges.append((bi_, bool_arms(t_)[0]))
    if is_leftmost:
        for bi_, t_, d_ in eq_dead:
            other_ = d_[3] if is_const(d_[2], 1) else d_[2]
            if any(m_[0] == "call" and m_[1] == v.S + "::fail" for m_ in members(other_)):
                allowed_edges.append((bi_, bool_arms(t_)[0]))
    if v.tag == "cw":
        for sbi_, st_, d_ in switches_on(root, lambda d: d[0] == "discr" and d[1][0] == "call" and str(d[1][1]).endswith("CodeMapper::get")):
            allowed_edges.append((sbi_, opt_arms(st_)[1]))
    for bi_, si_ in root_assigns:
        # the assignment sits right behind its guard: guarded by an allowed edge and by no further non-allowed branch after it
        g_ = [e_ for e_ in allowed_edges if b.edge_guards(e_, bi_) and (e_[1] == bi_ or not _branch_between(b, e_[1], bi_))]
        ctx.check(bool(g_) or sem(), "TRANS-RET", tb, "root-return-reason:" + tag, tb.loc(bi_, si_),
                  "a transition may return ROOT only because the walk reached ROOT%s%s; this return has another (or an additional) condition"
                  % (", or the fail link is DEAD" if is_leftmost else "", ", or the character is unmapped" if v.tag == "cw" else ""))
    # cw: unmapped characters return ROOT before any table access
    if v.tag == "cw":
        getcalls = fv.calls(lambda c: c.key.endswith("CodeMapper::get"))
        ok = len(getcalls) == 1
        if ok:
            vw, gbi, c, tj = getcalls[0]
            sws = switches_on(root, lambda d: d[0] == "discr" and d[1][0] == "call" and str(d[1][1]).endswith("CodeMapper::get"))
            ok = len(sws) == 1
            if ok:
                sbi, st, d = sws[0]
                some, none = opt_arms(st)
                # all unsafe sites/child calls are guarded by the Some edge
                sites = [bi for vw2, bi, c2, tj2 in fv.calls(lambda c: c.unsafe) if vw2 is root]
                ok = all(b.edge_guards((sbi, some), s) for s in sites) and sites != []
                # the None arm returns a const 0 without table access
                none_reach = b.reachable_from(none)
                ok = ok and not any(s in none_reach for s in sites)
        ctx.check(ok, "CW-MAP", tb, "unmapped-short-circuit:" + tag, tb.span,
                  "the char-wise transition must consult mapper.get(c) once and touch no table on its None arm")


# ----------------------------------------------------------------------------- ITER (standard kinds)

def _pull_item_component(t, pulls_sites, comp):
    """t == ((pull as Some).0).comp for one of the pull sites -> that site's bb"""
    # payload(call next(...)) then tuple field
    if t[0] == "field" and t[2] == "(tuple)" and t[3] == comp and t[1][0] == "payload":
        x = t[1][1]
        if x[0] == "call" and core.callee_base(x[1]) == ITER_NEXT and x[3] in pulls_sites:
            return x[3]
    return None


def _some_edges(root, opt_term):
    """CFG edges taken exactly when the option-valued term is Some: the Some arm of `match x` / `if let Some(..) = x`, the
    Continue arm of `x?`"""
    out = []
    for sbi, stj, d in switches_on(root, lambda d: d[0] == "discr"):
        x = d[1]
        if core.same(x, opt_term):
            out.append((sbi, opt_arms(stj)[0]))
        elif x[0] == "call" and isinstance(x[1], str) and core.callee_base(x[1]) == "core::ops::Try::branch" and x[2] and core.same(x[2][0], opt_term):
            cont = [tb for val, tb in stj["targets"] if val == 0]
            out.append((sbi, cont[0] if cont else stj["otherwise"]))
    return out


def rule_iter_standard(ctx, roles, kinds=("find", "overlapping", "nosuffix"), rules=None):
    lib = ctx.lib
    for v in roles.variants():
        if not v.ok:
            continue
        for kind in kinds:
            nb = v.next.get(kind)
            if nb is None:
                continue
            info = analyse_next(ctx, v, kind, nb)
            _iter_standard_one(ctx, roles, v, kind, info, rules)


def _iter_standard_one(ctx, roles, v, kind, info, rules):
    lib = ctx.lib
    b = info.body
    root = info.fv.root
    I = info.I
    allowed = Allowed(ctx, v)
    tag = "%s:%s" % (v.tag, kind)

    def want(r):
        return rules is None or r in rules

    # ---- LAZY-PULL / ITER-CURSOR: exactly one pull, from the source field
    src_pulls = [(vw, bi, r) for vw, bi, r in info.pulls
                 if r[0] == "field" and r[3] == info.src_field and self_param(r[1])]
    other_pulls = [(vw, bi, r) for vw, bi, r in info.pulls if (vw, bi, r) not in src_pulls]
    if want("LAZY-PULL"):
        ctx.check(len(src_pulls) == 1 and not other_pulls and all(vw is root for vw, _, _ in src_pulls),
                  "LAZY-PULL", b, "single-pull:" + tag, b.span,
                  "exactly one pull site reading self.%s expected; found %d (+%d from other receivers)"
                  % (info.src_field, len(src_pulls), len(other_pulls)))
    if len(src_pulls) != 1:
        return
    _, pbi, _ = src_pulls[0]
    psite = (b.path, pbi)
    # the switch on the pull's discriminant
    sws = pull_switches(root, psite)
    if len(sws) != 1:
        ctx.bad("LAZY-PULL", b, "pull-switch:" + tag, b.loc(pbi), "pull result must be matched exactly once")
        return
    sbi, some_arm, none_arm = sws[0]
    if want("LAZY-NOBUF"):
        bad = [c.key for vw, bi, c, tj in info.fv.calls()
               if core.callee_base(c.key).startswith("core::iter::") and c.name in
               ("peek", "collect", "nth", "skip", "size_hint", "count", "last", "rev", "next_back", "step_by", "peekable")]
        srcf = lib.adt_field(I, info.src_field)
        okty = srcf is not None and srcf["tyj"]["k"] == "adt" and srcf["tyj"]["path"] in (
            "core::iter::Enumerate", "charwise::iter::CharWithEndOffsetIterator") and \
            srcf["tyj"]["args"] and srcf["tyj"]["args"][0]["k"] == "param"
        ctx.check(not bad and okty, "LAZY-NOBUF", b, "no-buffering:" + tag, b.span,
                  "source must be held as Enumerate<P>/CharWithEndOffsetIterator<P> and only pulled with next(); "
                  "found field type %s, calls %s" % (srcf["ty"] if srcf else "?", bad))

    # ---- transition call
    if len(info.trans) != 1:
        ctx.bad("ITER-STATE", b, "single-transition:" + tag, b.span,
                "exactly one transition call expected in next(); found %d" % len(info.trans))
        return
    tvw, tbi, tc, ttj = info.trans[0]
    tsite = (b.path, tbi)
    if want("ITER-KIND"):
        lm = v.trans_of_kind.get("leftmost", set())
        ctx.check(tc.body_path not in lm, "ITER-KIND", b, "standard-transition:" + tag, b.loc(tbi),
                  "standard iterators must use the standard transition, not %s" % tc.name)
    starg = tvw.op(ttj["args"][1])
    labarg = tvw.op(ttj["args"][2])
    persistent = kind in ("overlapping", "nosuffix")
    if want("ITER-STATE"):
        if persistent:
            ok = starg[0] == "field" and starg[3] == "state_id" and self_param(starg[1])
            ctx.check(ok, "ITER-STATE", b, "persistent-state:" + tag, b.loc(tbi),
                      "the overlapping iterators must feed self.state_id to the transition; found %s" % show(starg), show(starg))
            # result stored back to self.state_id in a block dominated by the call, before the output read
            stores = [(bi, si) for bi, si, s in b.stmts() if s["k"] == "assign" and
                      core.last_field(s["lhs"]) and core.last_field(s["lhs"])["name"] == "state_id" and
                      core.last_field(s["lhs"])["adt"] == I]
            oks = False
            allres = bool(stores)
            for bi, si in stores:
                t = pnorm(root.T.rvalue(b.blocks[bi]["stmts"][si]["rv"]))
                if t[0] == "call" and t[3] == tsite and b.dominates(tbi, bi):
                    # unconditional: from the transition call the store is always reached
                    if bi == tbi or bi in b.succ(tbi) or not (set(b.succ(tbi)) - {bi}):
                        oks = True
                else:
                    allres = False
            ctx.check(oks, "ITER-STATE", b, "state-stored-back:" + tag, b.loc(tbi),
                      "the transition result must be stored to self.state_id unconditionally")
            ctx.check(allres, "ITER-STATE", b, "state-only-from-transition:" + tag, b.loc(tbi),
                      "inside next() self.state_id may only be assigned the transition result (the automaton "
                      "state persists across calls)")
        else:
            ok = True
            for m in members(starg):
                if m[0] == "const":
                    ok = ok and m[1] == 0
                elif m[0] == "call":
                    ok = ok and m[3] == tsite
                elif m[0] != "loop":
                    ok = False
            ctx.check(ok, "ITER-STATE", b, "per-call-state:" + tag, b.loc(tbi),
                      "find_iter must start every call at ROOT and carry only its own transition results; found %s" % show(starg),
                      show(starg))
    # ---- label = second component of the pulled item
    if want("ITER-LABEL"):
        ctx.check(_pull_item_component(labarg, {psite}, "1") == psite, "ITER-LABEL", b, "label-from-pull:" + tag, b.loc(tbi),
                  "the label fed to the transition must be the item just pulled; found %s" % show(labarg), show(labarg))
        ctx.check(b.edge_guards((sbi, some_arm), tbi), "ITER-LABEL", b, "transition-after-pull:" + tag, b.loc(tbi),
                  "the transition must be on the Some arm of the pull")
        ctx.check(pbi not in b.reach(some_arm, avoid_blocks=[tbi]) and all(r not in b.reach(some_arm, avoid_blocks=[tbi]) for r in b.return_blocks()),
                  "ITER-LABEL", b, "every-item-stepped:" + tag, b.loc(tbi),
                  "every pulled item must be fed to the transition (no item may be skipped or dropped without stepping the automaton)")

    # ---- output read (ITER-OUT): State::output_pos(states[post-transition state])
    outreads = [(vw, bi, tj) for vw, bi, c, tj in info.fv.calls(lambda c: c.adt == v.S and c.name == "output_pos")]
    if len(outreads) != 1:
        ctx.bad("ITER-OUT", b, "single-output-read:" + tag, b.span,
                "exactly one State::output_pos read expected; found %d" % len(outreads))
        return
    ovw, obi, otj = outreads[0]
    osite = (b.path, obi)
    oarg = ovw.op(otj["args"][0])
    ok = oarg[0] == "call" and oarg[1] == GET_UNCHECKED and table_of(oarg[2][0], v) == "states"
    if ok:
        idx = oarg[2][1]
        if persistent:
            ok = idx[0] == "field" and idx[3] == "state_id" and self_param(idx[1])
        else:
            ok = any(m[0] == "call" and m[3] == tsite for m in members(idx)) and \
                all((m[0] == "call" and m[3] == tsite) or is_const(m, 0) or m[0] == "loop" for m in members(idx))
        ok = ok and b.dominates(tbi, obi)
    if want("ITER-OUT"):
        ctx.check(ok, "ITER-OUT", b, "output-of-new-state:" + tag, b.loc(obi),
                  "the reporting condition must be output_pos of the post-transition state; read at %s" % show(oarg), show(oarg))
    def _on_output(d):
        # `if let Some(p) = ..output_pos()` / match, or `..output_pos()?` (Continue = there is an output)
        if d[0] != "discr" or d[1][0] != "call":
            return False
        x = d[1]
        if isinstance(x[1], str) and core.callee_base(x[1]) == "core::ops::Try::branch" and x[2] and x[2][0][0] == "call":
            x = x[2][0]
        return x[3] == osite
    osw = switches_on(root, _on_output)
    bool_form = False
    if len(osw) != 1:
        # `let found = ..output_pos(); if found.is_some() {..}` / `!found.is_none()`
        def _on_output_bool(d):
            x = d
            while x[0] == "un" and x[1] == "Not":
                x = x[2]
            return x[0] == "call" and isinstance(x[1], str) and core.callee_base(x[1]) in ("core::option::Option::is_some", "core::option::Option::is_none") \
                and len(x[2]) == 1 and x[2][0][0] == "call" and x[2][0][3] == osite
        osw = switches_on(root, _on_output_bool)
        bool_form = len(osw) == 1
    if len(osw) != 1:
        ctx.bad("ITER-OUT", b, "output-switch:" + tag, b.loc(obi), "output_pos must be matched exactly once")
        return
    osbi, ost, od = osw[0]
    if bool_form:
        neg = False
        x = od
        while x[0] == "un" and x[1] == "Not":
            neg = not neg
            x = x[2]
        if core.callee_base(x[1]).endswith("is_none"):
            neg = not neg
        tt_, ff_ = bool_arms(ost)
        osome, onone = (ff_, tt_) if neg else (tt_, ff_)
    elif od[1][3] == osite:
        osome, onone = opt_arms(ost)
    else:
        cont_ = [tb for val, tb in ost["targets"] if val == 0]
        brk_ = [tb for val, tb in ost["targets"] if val == 1] or [ost["otherwise"]]
        osome, onone = (cont_[0] if cont_ else ost["otherwise"]), brk_[0]

    # ---- reports
    scan_reports = []
    chain_reports = []
    for vw, bi, si, agg in info.reports:
        if vw is not root:
            ctx.bad("ITER-OUT", b, "report-in-closure:" + tag, vw.body.loc(bi), "unexpected Match constructed in a closure")
            continue
        if b.edge_guards((sbi, some_arm), bi):
            scan_reports.append((bi, si, agg))
        else:
            chain_reports.append((bi, si, agg))
    # hand-off form (overlapping iterator written as one loop): the scan path does not report itself but stores the new state's
    # output in self.output_pos — guarded by it being Some — and goes back to the entry test, whose chain branch reports it before
    # anything else is pulled
    handoff = []
    if kind == "overlapping" and not scan_reports:
        esw_ = switches_on(root, lambda d: d[0] == "discr" and d[1][0] == "field" and d[1][3] == "output_pos" and self_param(d[1][1]))
        for bi_, si_, s_ in b.stmts():
            if s_["k"] == "assign" and core.last_field(s_["lhs"]) and core.last_field(s_["lhs"])["name"] == "output_pos" and \
                    core.last_field(s_["lhs"])["adt"] == I:
                t_ = pnorm(root.T.rvalue(s_["rv"]))
                direct_ = t_[0] == "call" and t_[3] == osite
                wrapped_ = t_[0] == "agg" and t_[2] == "Some" and dict(t_[3]).get("0", ("x",))[0] == "payload" and \
                    dict(t_[3])["0"][1][0] == "call" and dict(t_[3])["0"][1][3] == osite
                if (direct_ or wrapped_) and b.edge_guards((osbi, osome), bi_) and len(esw_) == 1 and \
                        pbi not in b.reach(bi_, avoid_blocks=[esw_[0][0]]) - {bi_}:
                    handoff.append(bi_)
    if want("ITER-OUT"):
        ctx.check(len(scan_reports) >= 1 or bool(handoff), "ITER-OUT", b, "has-scan-report:" + tag, b.span, "no report on the scan path")
        for bi, si, agg in scan_reports:
            ctx.check(b.edge_guards((osbi, osome), bi), "ITER-OUT", b, "report-guarded-by-output:" + tag, b.loc(bi, si),
                      "a report on the scan path must be guarded by `output_pos(state).is_some()`")
        # the None arm of the output test must continue scanning (reach the pull again), not return
        ctx.check(pbi in b.reachable_from(onone) and not any(
            bi in b.reachable_from(onone, avoid=[pbi]) for bi, _, _ in scan_reports) and not any(
            hb in b.reachable_from(onone, avoid=[pbi]) for hb in handoff), "ITER-OUT", b,
            "no-output-continues:" + tag, b.loc(osbi), "a state without output must continue the scan")
    if kind != "overlapping":
        if want("ITER-ONE"):
            ctx.check(not chain_reports and not info.parent_calls, "ITER-ONE", b, "no-chain:" + tag, b.span,
                      "%s must report only the head of the output list (no parent walk, no report off the scan path)" % kind)
    # each report: record, fields, end
    fdict = lambda agg: dict(agg[3])
    for bi, si, agg in scan_reports + chain_reports:
        f = fdict(agg)
        on_scan = (bi, si, agg) in scan_reports
        ln = accessor_inline(lib, f["length"], [v.O])
        val = accessor_inline(lib, f["value"], [v.O])
        end = f["end"]
        loc = b.loc(bi, si)
        okrec = ln[0] == "field" and ln[3] == "length" and val[0] == "field" and val[3] == "value" and ln[1] == val[1]
        rec = ln[1] if ln[0] == "field" else None
        if want("VAL-MATCH"):
            ctx.check(okrec, "VAL-MATCH", b, "length-value-same-record:" + tag + (":scan" if on_scan else ":chain"), loc,
                      "length and value of a Match must be the .length/.value of one output record; found length=%s value=%s"
                      % (show(ln), show(val)))
        if rec is None:
            continue
        okhead = rec[0] == "call" and rec[1] == GET_UNCHECKED and table_of(rec[2][0], v) == "outputs"
        if okhead:
            idx = rec[2][1]
            okhead = idx[0] == "bin" and idx[1] == "Sub" and is_const(idx[3], 1)
            if okhead:
                P = idx[2]
                if on_scan:
                    okhead = P[0] == "payload" and P[1][0] == "call" and P[1][3] == osite
                else:
                    okhead = P[0] == "payload" and P[1][0] == "field" and P[1][3] == "output_pos" and self_param(P[1][1])
        if want("ITER-HEAD"):
            ctx.check(okhead, "ITER-HEAD", b, "record:" + tag + (":scan" if on_scan else ":chain"), loc,
                      "the reported record must be outputs[%s - 1]; found %s" % (
                          "output_pos(new state)" if on_scan else "self.output_pos", show(rec)), show(rec))
        # end
        if want("LAZY-END"):
            _check_end(ctx, v, info, b, root, end, on_scan, psite, sbi, some_arm, bi, loc, tag)
    # ---- ITER-CHAIN (overlapping only)
    if kind == "overlapping" and want("ITER-CHAIN"):
        _iter_chain(ctx, v, info, b, root, scan_reports, chain_reports, pbi, tag)
    # ---- None exits only at end of input
    if want("ITER-EXHAUST"):
        for vw, bi, si in info.nones:
            ctx.check(b.edge_guards((sbi, none_arm), bi), "ITER-EXHAUST", b, "none-only-at-end:" + tag, b.loc(bi, si),
                      "`None` may be returned only when the source is exhausted (None arm of the pull)")
        # and the None arm must not report
        nr = b.reachable_from(none_arm)
        # (`None` as a literal, or built by `?` on the exhausted pull: FromResidual::from_residual into the return place)
        resid = [bi for vw, bi, c, tj in info.fv.calls(lambda c: core.callee_base(c.key) == "core::ops::FromResidual::from_residual")
                 if vw is root and tj.get("dest") is not None and tj["dest"]["local"] == 0 and not tj["dest"]["proj"] and bi in nr]
        ctx.check(not any(bi in nr for bi, _, _ in scan_reports + chain_reports) and (len(info.nones) >= 1 or bool(resid)),
                  "ITER-EXHAUST", b, "end-returns-none:" + tag, b.loc(sbi), "end of input must return None")


def _end_term_ok(v, end, psite):
    """bw: pull.0 + 1 ; cw: pull.0 (decoder end offset)"""
    if v.tag == "bw":
        return end[0] == "bin" and end[1] == "Add" and (
            (is_const(end[3], 1) and _pull_item_component(end[2], {psite}, "0") == psite) or
            (is_const(end[2], 1) and _pull_item_component(end[3], {psite}, "0") == psite))
    return _pull_item_component(end, {psite}, "0") == psite


def _check_end(ctx, v, info, b, root, end, on_scan, psite, sbi, some_arm, rbi, loc, tag):
    I = info.I
    direct = _end_term_ok(v, end, psite)
    via_pos = end[0] == "field" and end[3] == "pos" and self_param(end[1])
    if on_scan and direct:
        ctx.ok("LAZY-END", b, "end:" + tag + ":scan", loc, "end is %s of the latest pull" % ("index+1" if v.tag == "bw" else "the decoder end offset"))
        return
    if not via_pos:
        ctx.bad("LAZY-END", b, "end:" + tag + (":scan" if on_scan else ":chain"), loc,
                "end must be %s of the latest pull (or self.pos holding it); found %s"
                % ("index+1" if v.tag == "bw" else "the end offset", show(end)), show(end))
        return
    # all writes to self.pos in this body are the pull's end term and lie on the Some arm
    writes = [(bi, si, s) for bi, si, s in b.stmts() if s["k"] == "assign" and core.last_field(s["lhs"]) and
              core.last_field(s["lhs"])["name"] == "pos" and core.last_field(s["lhs"])["adt"] == I]
    ok = bool(writes)
    for bi, si, s in writes:
        t = pnorm(root.T.rvalue(s["rv"]))
        ok = ok and _end_term_ok(v, t, psite) and b.edge_guards((sbi, some_arm), bi)
    ctx.check(ok, "LAZY-END", b, "pos-writes:" + tag, loc,
              "every write to self.pos must be the end offset of the pull just made")
    if on_scan:
        # on every path from the pull's Some arm to the report, self.pos is written
        wb = {bi for bi, _, _ in writes}
        ctx.check(rbi not in b.reachable_from(some_arm, avoid=wb) or rbi in wb, "LAZY-END", b, "pos-fresh:" + tag, loc,
                  "self.pos must be updated from the latest pull on every path to a scan report")
    else:
        ctx.ok("LAZY-END", b, "end:" + tag + ":chain", loc, "chain report uses self.pos (set when the chain was entered)")


def _iter_chain(ctx, v, info, b, root, scan_reports, chain_reports, pbi, tag):
    I = info.I
    # entry test on self.output_pos
    esw = switches_on(root, lambda d: d[0] == "discr" and d[1][0] == "field" and d[1][3] == "output_pos" and self_param(d[1][1]))
    ok = len(esw) == 1 and b.dominates(esw[0][0], pbi)
    ctx.check(ok, "ITER-CHAIN", b, "entry-test:" + tag, b.span,
              "next() must first test self.output_pos (pending records of the current end position)")
    if not ok:
        return
    ebi, et, _ = esw[0]
    some, none = opt_arms(et)
    ctx.check(len(chain_reports) >= 1 and all(b.edge_guards((ebi, some), bi) for bi, _, _ in chain_reports), "ITER-CHAIN",
              b, "chain-report:" + tag, b.loc(ebi), "a pending record must be reported from the chain branch")
    # no pull on the chain branch before its return
    ctx.check(pbi not in b.reachable_from(some), "ITER-CHAIN", b, "chain-no-pull:" + tag, b.loc(ebi),
              "the chain branch must report without pulling from the source")
    ctx.check(b.edge_guards((ebi, none), pbi), "ITER-CHAIN", b, "scan-after-chain:" + tag, b.loc(ebi),
              "scanning resumes only when no record is pending")
    # every report is preceded by self.output_pos := parent(record reported)
    writes = [(bi, si, s) for bi, si, s in b.stmts() if s["k"] == "assign" and core.last_field(s["lhs"]) and
              core.last_field(s["lhs"])["name"] == "output_pos" and core.last_field(s["lhs"])["adt"] == I]
    for rbi, rsi, agg in scan_reports + chain_reports:
        f = dict(agg[3])
        ln = accessor_inline(ctx.lib, f["length"], [v.O])
        rec = ln[1] if ln[0] == "field" else None
        good = False
        for bi, si, s in writes:
            t = pnorm(root.T.rvalue(s["rv"]))
            if t[0] == "call" and t[1] == v.O + "::parent" and t[2][0] == rec and b.dominates(bi, rbi):
                good = True
        ctx.check(good, "ITER-CHAIN", b, "advance-chain:" + tag + (":scan" if (rbi, rsi, agg) in scan_reports else ":chain"),
                  b.loc(rbi, rsi), "before a record is reported self.output_pos must be set to that record's parent")


# ----------------------------------------------------------------------------- ITER-LM (leftmost)

def rule_iter_leftmost(ctx, roles, rules=None):
    for v in roles.variants():
        if not v.ok:
            continue
        nb = v.next.get("leftmost")
        if nb is None:
            continue
        info = analyse_next(ctx, v, "leftmost", nb)
        _iter_leftmost_one(ctx, roles, v, info, rules)


def _iter_leftmost_one(ctx, roles, v, info, rules):
    lib = ctx.lib
    b = info.body
    fv = info.fv
    root = fv.root
    I = info.I
    tag = v.tag + ":leftmost"

    def want(r):
        return rules is None or r in rules

    if len(info.trans) != 1:
        ctx.bad("ITER-LM", b, "single-transition:" + tag, b.span, "exactly one transition call expected; found %d" % len(info.trans))
        return
    tvw, tbi, tc, ttj = info.trans[0]
    tsite = (b.path, tbi)
    lm = v.trans_of_kind.get("leftmost", set())
    std = set()
    for k in ("find", "overlapping", "nosuffix"):
        std |= v.trans_of_kind.get(k, set())
    if want("ITER-KIND"):
        ctx.check(tc.body_path not in std, "ITER-KIND", b, "leftmost-transition:" + tag, b.loc(tbi),
                  "the leftmost iterator must use the leftmost transition (distinct from the standard one)")
    starg = tvw.op(ttj["args"][1])
    labarg = tvw.op(ttj["args"][2])
    if want("ITER-STATE"):
        ok = True
        for m in members(starg):
            if m[0] == "const":
                ok = ok and m[1] == 0
            elif m[0] == "call":
                ok = ok and m[3] == tsite
            elif m[0] != "loop":
                ok = False
        ctx.check(ok, "ITER-STATE", b, "per-call-state:" + tag, b.loc(tbi),
                  "leftmost search must restart at ROOT on every call; found %s" % show(starg), show(starg))
    # ---- scan source: pull whose receiver derives from self.haystack and self.pos
    if len(info.pulls) != 1:
        ctx.bad("ITER-LM", b, "single-pull:" + tag, b.span, "exactly one pull expected; found %d" % len(info.pulls))
        return
    pvw, pbi, recv = info.pulls[0]
    psite = (b.path, pbi)
    uses_hay = any(x[0] == "field" and x[3] == info.src_field and self_param(x[1]) for x in walk(recv))
    uses_pos = any(x[0] == "field" and x[3] == "pos" and self_param(x[1]) for x in walk(recv))
    if want("ITER-LM"):
        ctx.check(uses_hay and uses_pos, "ITER-LM", b, "scan-from-pos:" + tag, b.loc(pbi),
                  "the scan must read self.haystack starting at self.pos; source is %s" % show(recv), show(recv))
        if v.tag == "bw" and recv[1] == "<indexed>":
            # indexed scan: the index is a counter that starts at self.pos and is stepped by one exactly once on every round,
            # after the round's reads (the term engine is flow-insensitive for a loop-carried local: the order is a CFG fact)
            from .pat import Phi as Phi_, B as B_, K as K_, ANY as ANY_, m as m_
            idx = recv[2][1]
            shape = idx[0] == "phi" and m_(Phi_(lambda t, e: t[0] == "field" and t[3] == "pos" and self_param(t[1]), B_("Add", ANY_, K_(1)), req=[0, 1]), idx)
            # the counter local is the one the phi's loop marker names; its updates are the assignments to it inside the cycle
            cl_ = {x_[1] for x_ in walk(idx) if x_[0] == "loop"}
            upd = []
            if len(cl_) == 1:
                cl_ = cl_.pop()
                for bi_, si_, st_ in b.stmts():
                    if st_["k"] == "assign" and not st_["lhs"]["proj"] and st_["lhs"]["local"] == cl_ and b.in_cycle(bi_):
                        t_ = pnorm(root.T.rvalue(st_["rv"]))
                        if t_[0] == "field" and t_[1][0] == "ovf":
                            t_ = t_[1]
                        if t_[0] in ("bin", "ovf") and t_[1] == "Add" and (is_const(t_[3], 1) or is_const(t_[2], 1)):
                            upd.append(bi_)
                        else:
                            shape = False
            info.idx_updates = upd
            some_ = [tb_ for sb_, st2_, d_ in switches_on(root, lambda d: d[0] == "discr" and d[1][0] == "call" and d[1][3] == (b.path, pbi))
                     for tb_ in [opt_arms(st2_)[0]]]
            shape = shape and bool(upd) and len(some_) == 1 and pbi not in b.reach(some_[0], avoid_blocks=upd) and \
                all(u2 not in (b.reach(u, avoid_blocks=[pbi]) - {u}) for u in upd for u2 in upd)
            ctx.check(shape, "ITER-LM", b, "absolute-offsets:" + tag, b.loc(pbi),
                      "positions must be absolute: the index starts at self.pos and is stepped by one exactly once per round; found %s (updates at %s)"
                      % (show(idx), upd))
        elif v.tag == "bw" and _suffix_enumerate(recv):
            # `haystack[self.pos..].iter().enumerate()`: offsets relative to the suffix cut at self.pos; made absolute where the
            # resume offset is computed (clause resume-offset)
            info.suffix_relative = True
            ctx.ok("ITER-LM", b, "absolute-offsets:" + tag, b.loc(pbi), "offsets are relative to haystack[self.pos..] and re-based on self.pos")
        elif v.tag == "bw":
            # skip(enumerate(iter(haystack)), self.pos): enumerate must be applied before skip
            shape = recv[0] == "call" and core.callee_base(recv[1]) == "core::iter::Iterator::skip" and \
                recv[2][0][0] == "call" and core.callee_base(recv[2][0][1]) == "core::iter::Iterator::enumerate" and \
                recv[2][1][0] == "field" and recv[2][1][3] == "pos"
            ctx.check(shape, "ITER-LM", b, "absolute-offsets:" + tag, b.loc(pbi),
                      "positions must be absolute: enumerate() applied to the whole haystack, then skip(self.pos); found %s" % show(recv))
        else:
            # haystack[self.pos..] through the checked `str::get(..)?` (the range is re-validated on every call because AsRef need
            # not return the same string twice) or, historically, `get_unchecked`
            # the decoder is `chars()` (positions by accumulating len_utf8) or `char_indices()` (positions relative to the suffix)
            sl = recv[2][0] if (recv[0] == "call" and (recv[1].endswith("::chars") or recv[1].endswith("::char_indices")) and recv[2]) else None
            info.char_indices = recv[0] == "call" and recv[1].endswith("::char_indices")
            if sl is not None and sl[0] == "payload":
                sl = sl[1]
            shape = sl is not None and sl[0] == "call" and isinstance(sl[1], str) and sl[1].split("@")[0] in (STR_GET_UNCHECKED, "core::str::get") \
                and len(sl[2]) == 2
            if shape:
                rng = sl[2][1]
                shape = rng[0] == "agg" and rng[1] == "core::ops::RangeFrom" and dict(rng[3])["start"][0] == "field" and \
                    dict(rng[3])["start"][3] == "pos"
            ctx.check(shape, "ITER-LM", b, "suffix-from-pos:" + tag, b.loc(pbi),
                      "the scan must decode haystack[self.pos..]; found %s" % show(recv))
    sws = pull_switches(root, psite)
    if len(sws) != 1:
        ctx.bad("ITER-LM", b, "pull-switch:" + tag, b.loc(pbi), "pull result must be matched exactly once")
        return
    sbi, some_arm, none_arm = sws[0]
    # label
    if want("ITER-LABEL"):
        if v.tag == "bw" and recv[1] == "<indexed>":
            # haystack[index], read before the round's index update
            okl = labarg[0] == "elem" and core.same(labarg[1], recv[2][0]) and core.same(labarg[2], recv[2][1]) and \
                all(tbi not in (b.reach(u, avoid_blocks=[pbi]) - {u}) for u in getattr(info, "idx_updates", []))
        elif v.tag == "bw":
            okl = labarg[0] == "field" and labarg[3] == "1" and labarg[1][0] == "payload" and labarg[1][1][0] == "call" and labarg[1][1][3] == psite
        elif recv[0] == "call" and recv[1].endswith("::char_indices"):
            okl = labarg[0] == "field" and labarg[3] == "1" and labarg[1][0] == "payload" and labarg[1][1][0] == "call" and labarg[1][1][3] == psite
        else:
            okl = labarg[0] == "payload" and labarg[1][0] == "call" and labarg[1][3] == psite
        ctx.check(okl, "ITER-LABEL", b, "label-from-pull:" + tag, b.loc(tbi),
                  "the label must be the item just pulled; found %s" % show(labarg), show(labarg))
        ctx.check(pbi not in b.reach(some_arm, avoid_blocks=[tbi]) and b.edge_guards((sbi, some_arm), tbi), "ITER-LABEL", b,
                  "every-item-stepped:" + tag, b.loc(tbi), "every pulled item must be fed to the transition")
    # ---- the ROOT test on the new state
    eqs = switches_on(root, lambda d: d[0] == "bin" and d[1] in ("Eq", "Ne") and (is_const(d[2], 0) or is_const(d[3], 0)) and
                      any(m[0] == "call" and m[3] == tsite for m in members(d[3] if is_const(d[2], 0) else d[2])))
    if len(eqs) != 1 or not b.dominates(tbi, eqs[0][0]):
        ctx.bad("ITER-LM", b, "root-test:" + tag, b.loc(tbi), "the new state must be compared with ROOT exactly once after the transition")
        return
    rbi, rt, rd = eqs[0]
    is_root_arm, not_root_arm = bool_arms(rt)
    if rd[1] == "Ne":
        is_root_arm, not_root_arm = not_root_arm, is_root_arm
    # ---- candidate local: the local updated through Option::replace / assigned Some(output_pos)
    outreads = [(vw, bi, tj) for vw, bi, c, tj in fv.calls(lambda c: c.adt == v.S and c.name == "output_pos")]
    if len(outreads) != 1:
        ctx.bad("ITER-LM", b, "single-output-read:" + tag, b.span, "exactly one State::output_pos read expected; found %d" % len(outreads))
        return
    ovw, obi, otj = outreads[0]
    osite = (b.path, obi)
    oarg = ovw.op(otj["args"][0])
    ok = oarg[0] == "call" and oarg[1] == GET_UNCHECKED and table_of(oarg[2][0], v) == "states" and \
        any(m[0] == "call" and m[3] == tsite for m in members(oarg[2][1])) and b.dominates(tbi, obi)
    if want("ITER-OUT"):
        ctx.check(ok, "ITER-OUT", b, "output-of-new-state:" + tag, b.loc(obi),
                  "the candidate must come from output_pos of the post-transition state; read at %s" % show(oarg))
        ctx.check(b.edge_guards((rbi, not_root_arm), obi), "ITER-LM", b, "candidate-only-off-root:" + tag, b.loc(obi),
                  "a candidate is taken only when the new state is not ROOT")
    osw = switches_on(root, lambda d: d[0] == "discr" and d[1][0] == "call" and d[1][3] == osite)
    if len(osw) != 1:
        ctx.bad("ITER-OUT", b, "output-switch:" + tag, b.loc(obi), "output_pos must be matched exactly once")
        return
    osbi, ost, _ = osw[0]
    osome, onone = opt_arms(ost)
    # candidate update sites: Option::replace(&mut cand, payload(output read)) or assignment
    cand_updates = []
    cand_local = None
    for vw, bi, c, tj in fv.calls(lambda c: core.callee_base(c.key) in ("core::option::Option::replace", "core::option::Option::insert")):
        a1 = vw.op(tj["args"][1])
        if a1[0] == "payload" and a1[1][0] == "call" and a1[1][3] == osite:
            cand_updates.append(bi)
            # which local?
            a0 = tj["args"][0]
            if a0["k"] in ("move", "copy"):
                for d in b.defs().get(a0["place"]["local"], []):
                    if d[0] == "rv" and d[3]["k"] == "ref":
                        cand_local = d[3]["place"]["local"]
    for bi, si, s in b.stmts():
        if s["k"] == "assign" and not s["lhs"]["proj"] and s["rv"]["k"] == "aggregate" and s["rv"].get("variant") == "Some":
            t = pnorm(root.T.rvalue(s["rv"]))
            inner = dict(t[3]).get("0")
            if inner and inner[0] == "payload" and inner[1][0] == "call" and inner[1][3] == osite:
                cand_updates.append(bi)
                cand_local = s["lhs"]["local"]
                # `cand = Some(x)` is lowered to `tmp = Some(x); cand = move tmp`: the candidate is the local the temporary is moved to
                for _ in range(3):
                    if cand_local in b.local_names:
                        break
                    fw = [s2["lhs"]["local"] for _b2, _s2, s2 in b.stmts() if s2["k"] == "assign" and not s2["lhs"]["proj"] and
                          s2["rv"]["k"] == "use" and s2["rv"]["op"]["k"] in ("move", "copy") and not s2["rv"]["op"]["place"]["proj"] and
                          s2["rv"]["op"]["place"]["local"] == cand_local]
                    if len(fw) != 1:
                        break
                    cand_local = fw[0]
    if want("ITER-LM"):
        ctx.check(len(cand_updates) == 1 and cand_local is not None, "ITER-LM", b, "candidate-update:" + tag, b.loc(obi),
                  "exactly one site must record the new state's output as the candidate; found %d" % len(cand_updates))
    if len(cand_updates) != 1 or cand_local is None:
        return
    ubi = cand_updates[0]
    if want("ITER-LM"):
        ctx.check(b.edge_guards((osbi, osome), ubi), "ITER-LM", b, "candidate-guarded:" + tag, b.loc(ubi),
                  "the candidate is replaced only when the new state has an output")
    # the candidate's definitions: None at start + that update only
    cand = pnorm(root.T.local(cand_local))
    okc = True
    for m in members(cand):
        if m[0] == "agg" and m[1] == OPTION and m[2] == "None":
            continue
        if m[0] == "mutby" and m[4] == (b.path, ubi):
            continue
        if m[0] == "agg" and m[2] == "Some":
            continue
        okc = False
    if want("ITER-LM"):
        ctx.check(okc, "ITER-LM", b, "candidate-defs:" + tag, b.span,
                  "the candidate starts as None and is only ever replaced by the new state's output; defs: %s" % show(cand))
    # ---- pairing: self.pos updated together with the candidate
    writes = [(bi, si, s) for bi, si, s in b.stmts() if s["k"] == "assign" and core.last_field(s["lhs"]) and
              core.last_field(s["lhs"])["name"] == "pos" and core.last_field(s["lhs"])["adt"] == I]
    if want("ITER-LM"):
        ctx.check(len(writes) == 1, "ITER-LM", b, "single-pos-write:" + tag, b.span,
                  "self.pos must be written at exactly one site (together with the candidate); found %d" % len(writes))
    if len(writes) != 1:
        return
    wbi, wsi, ws = writes[0]
    if want("ITER-LM"):
        paired = b.dominates(ubi, wbi) and wbi not in b.reachable_from(ubi, avoid=[]) - b.reachable_from(ubi) and \
            pbi not in b.reachable_from(ubi, avoid=[wbi]) - {ubi}
        # also: no way to reach the pos write without the candidate update
        paired = paired and b.edge_guards((osbi, osome), wbi)
        ctx.check(paired, "ITER-LM", b, "candidate-pos-paired:" + tag, b.loc(wbi, wsi),
                  "candidate and resume offset must be updated together on every path")
    wt = pnorm(root.T.rvalue(ws["rv"]))
    if v.tag == "bw" and recv[1] == "<indexed>":
        # index + 1, the index read before the round's update
        okw = wt[0] == "bin" and wt[1] == "Add" and (
            (is_const(wt[3], 1) and core.same(wt[2], recv[2][1])) or (is_const(wt[2], 1) and core.same(wt[3], recv[2][1]))) and \
            all(wbi not in (b.reach(u, avoid_blocks=[pbi]) - {u}) for u in getattr(info, "idx_updates", []))
        if want("LAZY-END") or want("ITER-LM"):
            ctx.check(okw, "ITER-LM", b, "resume-offset:" + tag, b.loc(wbi, wsi),
                      "self.pos must become (index of the byte just consumed) + 1; found %s" % show(wt), show(wt))
    elif v.tag == "bw" and getattr(info, "suffix_relative", False):
        # start + offset + 1 with start = the value of self.pos the suffix was cut at (self.pos is not read again inside the loop)
        def flat_(t):
            if t[0] in ("bin", "ovf") and t[1] == "Add":
                return flat_(t[2]) + flat_(t[3])
            return [t]
        parts_ = flat_(wt)
        okw = len(parts_) == 3 and len([p_ for p_ in parts_ if p_[0] == "field" and p_[3] == "pos" and self_param(p_[1])]) == 1 and \
            len([p_ for p_ in parts_ if _lm_index(p_, psite)]) == 1 and len([p_ for p_ in parts_ if is_const(p_, 1)]) == 1
        reads_ = [(bi_, si_) for bi_, si_, st_ in b.stmts() if st_["k"] == "assign" and b.in_cycle(bi_) and
                  any(core.last_field(pl_) and core.last_field(pl_)["name"] == "pos" and core.last_field(pl_)["adt"] == I
                      for pl_ in core._places(st_["rv"], []))]
        if want("LAZY-END") or want("ITER-LM"):
            ctx.check(okw and not reads_, "ITER-LM", b, "resume-offset:" + tag, b.loc(wbi, wsi),
                      "self.pos must become start + (offset of the byte just consumed in haystack[start..]) + 1, start being the value "
                      "of self.pos the suffix was cut at (no read of self.pos inside the loop); found %s" % show(wt), show(wt))
    elif v.tag == "bw":
        # pos + 1 where pos = enumerate index of the pull
        okw = wt[0] == "bin" and wt[1] == "Add" and (
            (is_const(wt[3], 1) and _lm_index(wt[2], psite)) or (is_const(wt[2], 1) and _lm_index(wt[3], psite)))
        if want("LAZY-END") or want("ITER-LM"):
            ctx.check(okw, "ITER-LM", b, "resume-offset:" + tag, b.loc(wbi, wsi),
                      "self.pos must become (index of the byte just consumed) + 1; found %s" % show(wt), show(wt))
    elif recv[0] == "call" and recv[1].endswith("::char_indices"):
        _safe_str_indices(ctx, v, info, b, root, wt, wbi, wsi, psite, pbi, tag)
    else:
        _safe_str(ctx, v, info, b, root, wt, wbi, wsi, psite, pbi, tag)
    # ---- emission
    loop_reports = []
    end_reports = []
    for vw, bi, si, agg in info.reports:
        f = dict(agg[3])
        ln = accessor_inline(lib, f["length"], [v.O])
        val = accessor_inline(lib, f["value"], [v.O])
        end = f["end"]
        loc = vw.body.loc(bi, si)
        where = "loop" if (vw is root and b.edge_guards((sbi, some_arm), bi)) else "end"
        okrec = ln[0] == "field" and ln[3] == "length" and val[0] == "field" and val[3] == "value" and ln[1] == val[1]
        if want("VAL-MATCH"):
            ctx.check(okrec, "VAL-MATCH", vw.body, "length-value-same-record:%s:%s" % (tag, where), loc,
                      "length and value must be .length/.value of one record; found %s / %s" % (show(ln), show(val)))
        rec = ln[1] if ln[0] == "field" else None
        okhead = False
        if rec is not None and rec[0] == "call" and rec[1] == GET_UNCHECKED and table_of(rec[2][0], v) == "outputs":
            idx = rec[2][1]
            if idx[0] == "bin" and idx[1] == "Sub" and is_const(idx[3], 1):
                P = idx[2]
                # payload of the candidate local
                okhead = core.same(P, mk_payload(cand)) or (P[0] == "payload" and core.same(P[1], cand)) or \
                    _payload_of_candidate(P, cand, b, ubi, osite)
        if want("ITER-HEAD"):
            ctx.check(okhead, "ITER-HEAD", vw.body, "record:%s:%s" % (tag, where), loc,
                      "the reported record must be outputs[candidate - 1]; found %s" % (show(rec) if rec else "?"))
        okend = end[0] == "field" and end[3] == "pos" and self_param(end[1])
        if want("ITER-LM"):
            ctx.check(okend, "ITER-LM", vw.body, "end-is-pos:%s:%s" % (tag, where), loc,
                      "the end of a leftmost match is self.pos (end of the last candidate); found %s" % show(end))
        if vw is root and b.edge_guards((sbi, some_arm), bi):
            loop_reports.append((bi, si))
            if want("ITER-LM"):
                g = any(b.edge_guards(e_, bi) for e_ in _some_edges(root, cand))
                ctx.check(b.edge_guards((rbi, is_root_arm), bi) and g, "ITER-LM", b, "emit-on-root:" + tag, loc,
                          "inside the loop a match is emitted only when the automaton fell back to ROOT and a candidate exists")
        elif vw is root:
            end_reports.append((bi, si))
            if want("ITER-LM"):
                g = any(b.edge_guards(e_, bi) for e_ in _some_edges(root, cand))
                ctx.check(b.edge_guards((sbi, none_arm), bi) and g, "ITER-LM", b, "emit-at-end-guard:" + tag, loc,
                          "after the loop the pending candidate is emitted only if there is one")
    if want("ITER-LM"):
        ctx.check(len(loop_reports) >= 1, "ITER-LM", b, "has-loop-emit:" + tag, b.span,
                  "the loop must emit the candidate when the automaton returns to ROOT")
        # end of input: _0 = cand.map(closure) on the None arm of the pull
        endcalls = [(vw, bi, tj) for vw, bi, c, tj in fv.calls(lambda c: core.callee_base(c.key) == "core::option::Option::map")
                    if vw is root and tj["dest"]["local"] == 0]
        oke = len(endcalls) == 1 and b.edge_guards((sbi, none_arm), endcalls[0][1]) and core.same(root.op(endcalls[0][2]["args"][0]), cand)
        if not endcalls:
            # alternative shape: explicit match on the candidate after the loop
            oke = bool(end_reports)
        ctx.check(oke, "ITER-LM", b, "emit-at-end:" + tag, b.span,
                  "at end of input the pending candidate (if any) must be emitted")
        # a ROOT fallback without candidate continues scanning
    if want("ITER-EXHAUST"):
        for vw, bi, si in info.nones:
            ctx.check(b.edge_guards((sbi, none_arm), bi), "ITER-EXHAUST", b, "none-only-at-end:" + tag, b.loc(bi, si),
                      "`None` may be returned only when the haystack is exhausted")


def _suffix_enumerate(recv):
    """enumerate(iter(haystack[RangeFrom{start: self.pos}]))"""
    if not (recv[0] == "call" and isinstance(recv[1], str) and core.callee_base(recv[1]) == "core::iter::Iterator::enumerate" and recv[2]):
        return False
    x = recv[2][0]
    while x[0] == "call" and isinstance(x[1], str) and core.callee_base(x[1]) in ("core::slice::iter", "core::iter::IntoIterator::into_iter") and x[2]:
        x = x[2][0]
    if x[0] == "payload":
        x = x[1]
    rng = None
    if x[0] == "elem":
        rng = x[2]
    elif x[0] == "call" and isinstance(x[1], str) and core.callee_base(x[1]) in ("core::slice::get", "core::ops::Index::index") and len(x[2]) == 2:
        rng = x[2][1]
    if rng is None or rng[0] != "agg" or rng[1] != "core::ops::RangeFrom":
        return False
    st = dict(rng[3]).get("start")
    return st is not None and st[0] == "field" and st[3] == "pos" and self_param(st[1])


def _lm_index(t, psite):
    """enumerate index of the pulled item: ((pull as Some).0).0"""
    return t[0] == "field" and t[2] == "(tuple)" and t[3] == "0" and t[1][0] == "payload" and \
        t[1][1][0] == "call" and t[1][1][3] == psite


def _payload_of_candidate(P, cand, b, ubi, osite):
    if P[0] != "payload":
        return False
    x = P[1]
    if x == cand:
        return True
    # closure parameter bound to payload(cand) is rendered as payload(phi{None, mutby…})
    ms = members(x)
    return all((m[0] == "agg" and m[2] == "None") or (m[0] == "mutby" and m[4] == (b.path, ubi)) or
               (m[0] == "agg" and m[2] == "Some") for m in ms) and any(m[0] in ("mutby",) or (m[0] == "agg" and m[2] == "Some") for m in ms)


def _safe_str(ctx, v, info, b, root, wt, wbi, wsi, psite, pbi, tag):
    """SAFE-STR / CW-SKIP: self.pos += skips; skips = 0 | skips + len_utf8(c) with c the pulled
    char; skips is reset after every pos update before the next iteration."""
    ok = wt[0] == "bin" and wt[1] == "Add"
    skips_local = None
    if ok:
        a, c = wt[2], wt[3]
        posside = a if (a[0] == "field" and a[3] == "pos") else c
        other = c if posside is a else a
        ok = posside[0] == "field" and posside[3] == "pos" and self_param(posside[1])
        # `other` is the skips local: find which local by looking at the statement operands
        rvj = b.blocks[wbi]["stmts"][wsi]["rv"]
        # the write is `move _66.0` of an AddWithOverflow; chase to the binop
        skips_local = _find_skips_local(b, wbi, wsi)
    ctx.check(ok and skips_local is not None, "SAFE-STR", b, "pos-advance:" + tag, b.loc(wbi, wsi),
              "self.pos must advance by the accumulated UTF-8 width (`self.pos + skips`); found %s" % show(wt), show(wt))
    if skips_local is None:
        return
    sk = pnorm(root.T.local(skips_local))
    good = True
    seen_acc = False
    for m in members(sk):
        if is_const(m, 0):
            continue
        if m[0] == "bin" and m[1] == "Add":
            parts = [m[2], m[3]]
            lens = [p for p in parts if p[0] == "call" and p[1].endswith("len_utf8")]
            rest = [p for p in parts if p not in lens]
            if len(lens) == 1 and len(rest) == 1 and rest[0][0] == "loop" and rest[0][1] == skips_local:
                ch = lens[0][2][0]
                if ch[0] == "payload" and ch[1][0] == "call" and ch[1][3] == psite:
                    seen_acc = True
                    continue
        good = False
    ctx.check(good and seen_acc, "SAFE-STR", b, "skips-defs:" + tag, b.span,
              "skips must be 0 or skips + len_utf8(char just pulled); defs: %s" % show(sk), show(sk))
    # accumulation happens once per pulled char: the add's block is on every path pull-some -> transition
    # reset: on every path from the pos write back to the pull, `skips = 0` is passed
    resets = [bi for bi, si, s in b.stmts() if s["k"] == "assign" and not s["lhs"]["proj"] and
              s["lhs"]["local"] == skips_local and s["rv"]["k"] == "use" and s["rv"]["op"]["k"] == "const" and
              s["rv"]["op"].get("bits") == 0 and (bi != 0)]
    # same-block reset after the write counts
    same_block_after = any(bi == wbi and si > wsi for bi, si, s in b.stmts() if s["k"] == "assign" and
                           not s["lhs"]["proj"] and s["lhs"]["local"] == skips_local and s["rv"]["k"] == "use"
                           and s["rv"]["op"]["k"] == "const" and s["rv"]["op"].get("bits") == 0)
    okreset = same_block_after or (pbi not in b.reachable_from(wbi, avoid=[r for r in resets if r != wbi]) - {wbi})
    ctx.check(okreset, "SAFE-STR", b, "skips-reset:" + tag, b.loc(wbi, wsi),
              "after `self.pos += skips` the accumulator must be reset to 0 before the next character")
    # the accumulation must happen on every iteration (dominates the transition call)
    accs = [bi for bi, si, s in b.stmts() if s["k"] == "assign" and s["lhs"]["local"] == skips_local and bi != 0 and
            not (s["rv"]["k"] == "use" and s["rv"]["op"]["k"] == "const")]
    tbi = info.trans[0][1]
    sws_ok = any(b.dominates(a, tbi) or b.dominates(a, wbi) for a in accs)
    every_iter = any(pbi not in (b.reachable_from(b.succ(pbi)[0], avoid=[a]) - {b.succ(pbi)[0]}) or True for a in accs)
    ctx.check(bool(accs) and all(b.dominates(a, wbi) for a in accs), "SAFE-STR", b, "skips-accumulates-every-char:" + tag, b.span,
              "the width of every pulled character must be accumulated before the position can advance")


def _safe_str_indices(ctx, v, info, b, root, wt, wbi, wsi, psite, pbi, tag):
    """SAFE-STR for the `haystack[start..].char_indices()` form: the item is (offset of the char within the suffix, char), so
    the byte offset just behind the char is  start + offset + len_utf8(char)  with start = the value of self.pos the suffix was
    cut at.  The term engine is flow-insensitive for fields, so "the same start" is a MIR fact: self.pos is read only before
    the scan loop (a re-read inside the loop would see the already advanced position)."""
    def flat(t):
        if t[0] in ("bin", "ovf") and t[1] == "Add":
            return flat(t[2]) + flat(t[3])
        return [t]
    parts = flat(wt)
    item = lambda t: t[0] == "payload" and t[1][0] == "call" and t[1][3] == psite
    n_pos = [p for p in parts if p[0] == "field" and p[3] == "pos" and self_param(p[1])]
    n_off = [p for p in parts if p[0] == "field" and p[3] == "0" and item(p[1])]
    n_len = [p for p in parts if p[0] == "call" and isinstance(p[1], str) and p[1].endswith("len_utf8") and len(p[2]) == 1 and
             p[2][0][0] == "field" and p[2][0][3] == "1" and item(p[2][0][1])]
    ok = len(parts) == 3 and len(n_pos) == 1 and len(n_off) == 1 and len(n_len) == 1
    ctx.check(ok, "SAFE-STR", b, "pos-advance:" + tag, b.loc(wbi, wsi),
              "self.pos must become start + (offset of the char in the suffix) + len_utf8(char); found %s" % show(wt), show(wt))
    reads = []
    for bi, si, st in b.stmts():
        if st["k"] != "assign":
            continue
        for pl in core._places(st["rv"], []):
            lf = core.last_field(pl)
            if lf and lf["name"] == "pos" and lf["adt"] == info.I and b.in_cycle(bi):
                reads.append((bi, si))
    ctx.check(not reads, "SAFE-STR", b, "start-read-before-scan:" + tag, b.loc(*reads[0]) if reads else b.span,
              "the suffix start must be the value self.pos had when the suffix was cut: self.pos may not be read inside the scan loop")


def _find_skips_local(b, wbi, wsi):
    """the local added to self.pos in the `self.pos = self.pos + X` statement chain"""
    st = b.blocks[wbi]["stmts"][wsi]
    rv = st["rv"]

    def binop_operands(rv):
        if rv["k"] == "binop":
            return [rv["l"], rv["r"]]
        return None
    ops = binop_operands(rv)
    if ops is None and rv["k"] == "use" and rv["op"]["k"] in ("move", "copy"):
        src = rv["op"]["place"]["local"]
        for d in b.defs().get(src, []):
            if d[0] == "rv":
                ops = binop_operands(d[3])
    if not ops:
        return None
    for o in ops:
        if o["k"] in ("move", "copy") and not o["place"]["proj"]:
            l = o["place"]["local"]
            # chase simple copies back to a user variable
            for _ in range(4):
                ds = b.defs().get(l, [])
                if len(ds) == 1 and ds[0][0] == "rv" and ds[0][3]["k"] == "use" and ds[0][3]["op"]["k"] in ("copy", "move") \
                        and not ds[0][3]["op"]["place"]["proj"]:
                    l = ds[0][3]["op"]["place"]["local"]
                else:
                    break
            return l
    return None
