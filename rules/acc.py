"""Accessor / packing / predicate tables: ACC-STATE, ACC-PACK, ACC-OUT (writer/reader agreement of the
small accessors everything else is phrased in), KIND-PRED (truth tables of the MatchKind predicates)."""
from . import core
from .core import show, walk
from .view import FnView, pnorm, OPTION
from .pat import m, ANY, V, K, Par, C, F, E, P, B, Phi, members, OneOf
from .da import Sites, endswith, anykey
from .search import is_const


def OneOfP():
    """payload of the Option<NonZeroU32> parameter x (x.unwrap().get() on the Some arm)"""
    def f(t, env):
        return m(P(Par(2)), t, env)
    return f


def _ret(lib, b):
    fv = FnView(lib, b)
    return pnorm(fv.resolve(fv.root.ret()))


def _getter(ctx, lib, adt, name, pat, rule, what):
    b = lib.one_body(adt=adt, name=name)
    if b is None:
        ctx.missing(rule, "%s::%s" % (adt, name))
        return
    t = _ret(lib, b)
    ctx.check(m(pat, t), rule, b, "getter:" + name, b.span, "%s::%s must return %s; returns %s" % (adt, name, what, show(t)), show(t))


def _setter(ctx, lib, adt, name, tgt_pat, val_pat, rule, what):
    b = lib.one_body(adt=adt, name=name)
    if b is None:
        ctx.missing(rule, "%s::%s" % (adt, name))
        return
    S = Sites(lib, b)
    ws = S.stores
    ok = len(ws) == 1 and m(tgt_pat, ws[0]["tgt"]) and m(val_pat, ws[0]["val"])
    ctx.check(ok, rule, b, "setter:" + name, b.span, "%s::%s must %s; stores %s" % (adt, name, what, [(show(s["tgt"]), show(s["val"])) for s in ws]))


def _packing(ctx, lib, PK):
    """ACC-PACK: the four accessors of the packed word as BIT FUNCTIONS (rules/bits.py), whatever expression computes them:
         a()      = word[8..32)                 b()      = word[0..8)
         set_a(x) : word' = x[0..24) << 8 | word[0..8)      set_b(y) : word' = word[8..32) << 8 | y[0..8)"""
    from . import bits
    W = 32
    word = F(Par(1), "0", PK)
    bodies = {n: lib.one_body(adt=PK, name=n) for n in ("a", "b", "set_a", "set_b")}
    for n, bd in bodies.items():
        if bd is None:
            ctx.missing("ACC-PACK", "%s::%s" % (PK, n))
            return

    def env_for(argname, argbits):
        def env(t):
            if m(word, t):
                return bits.var_bits("w", 32, W)
            if t[0] == "param" and t[1] == 2:
                return bits.var_bits(argname, argbits, W)
            # the wrapped integer of the U24 argument read directly (`a.0`) instead of through get()
            if t[0] == "field" and t[3] == "0" and t[1][0] == "param" and t[1][1] == 2:
                return bits.var_bits(argname, argbits, W)
            return None
        return env

    def getter_bits(name, recv_bits):
        """bits of PK::name() on a receiver whose word has the given bits"""
        bd = bodies[name]
        t = _ret(lib, bd)

        def env(x):
            if m(word, x):
                return recv_bits
            return None
        return bits.ev(t, env, W, call=None)

    def mk_call(env):
        def call(t, depth):
            key = t[1].split("@")[0]
            if key == "intpack::U24::get" and len(t[2]) == 1:
                return bits.ev(t[2][0], env, W, call, depth + 1)
            if key in (PK + "::a", PK + "::b") and len(t[2]) == 1 and t[2][0][0] == "param" and t[2][0][1] == 1:
                return getter_bits(key.split("::")[-1], bits.var_bits("w", 32, W))
            raise bits.Unknown()
        return call
    wbits = bits.var_bits("w", 32, W)
    spec = {
        "a": wbits[8:] + [bits.ZERO] * 8,
        "b": wbits[:8] + [bits.ZERO] * 24,
        "set_a": wbits[:8] + bits.var_bits("x", 24, W)[:24],
        "set_b": bits.var_bits("y", 8, W)[:8] + wbits[8:],
    }
    what = {"a": "U24(self.0 >> 8): bits 8..32 of the word", "b": "the low byte of the word", "set_a": "store (a << 8) | low byte kept",
            "set_b": "store high 24 bits kept | b"}
    for name in ("a", "b"):
        bd = bodies[name]
        t = _ret(lib, bd)
        env = env_for("_", 0)
        try:
            got = bits.ev(t, env, W, mk_call(env))
        except bits.Unknown:
            got = None
        okw = True
        if name == "a":
            okw = t[0] == "agg" and t[1] == "intpack::U24"
        ctx.check(got == spec[name] and okw, "ACC-PACK", bd, "getter:" + name, bd.span,
                  "%s::%s must return %s; returns %s" % (PK, name, what[name], show(t)), show(t))
    for name, arg, nb in (("set_a", "x", 24), ("set_b", "y", 8)):
        bd = bodies[name]
        S = Sites(lib, bd)
        ws = S.stores
        got = None
        if len(ws) == 1 and m(word, ws[0]["tgt"]):
            env = env_for(arg, nb)
            try:
                got = bits.ev(ws[0]["val"], env, W, mk_call(env))
            except bits.Unknown:
                got = None
        ctx.check(got == spec[name], "ACC-PACK", bd, "setter:" + name, bd.span,
                  "%s::%s must %s; stores %s" % (PK, name, what[name], [(show(s_["tgt"]), show(s_["val"])) for s_ in ws]))


def rule_accessors(ctx, R):
    lib = ctx.lib
    for v in R.variants():
        if not v.ok:
            continue
        S_ = v.S
        if v.tag == "cw":
            for f in ("base", "check", "fail", "output_pos"):
                _getter(ctx, lib, S_, f, F(Par(1), f, S_), "ACC-STATE", "self." + f)
            _setter(ctx, lib, S_, "set_base", F(Par(1), "base", S_), ("agg", OPTION, "Some", (("0", Par(2)),)), "ACC-STATE", "store Some(x) in base")
            for f in ("check", "fail", "output_pos"):
                _setter(ctx, lib, S_, "set_" + f, F(Par(1), f, S_), Par(2), "ACC-STATE", "store x in " + f)
        else:
            PK = "intpack::U24nU8"
            _getter(ctx, lib, S_, "base", F(Par(1), "base", S_), "ACC-STATE", "self.base")
            _getter(ctx, lib, S_, "fail", F(Par(1), "fail", S_), "ACC-STATE", "self.fail")
            _getter(ctx, lib, S_, "check", C(PK + "::b", F(Par(1), "opos_ch", S_)), "ACC-STATE", "the low byte of opos_ch")
            _getter(ctx, lib, S_, "output_pos", C("core::num::NonZero::new", C("intpack::U24::get", C(PK + "::a", F(Par(1), "opos_ch", S_)))),
                    "ACC-STATE", "NonZero::new(high 24 bits of opos_ch)")
            _setter(ctx, lib, S_, "set_base", F(Par(1), "base", S_), ("agg", OPTION, "Some", (("0", Par(2)),)), "ACC-STATE", "store Some(x) in base")
            _setter(ctx, lib, S_, "set_fail", F(Par(1), "fail", S_), Par(2), "ACC-STATE", "store x in fail")
            b = lib.one_body(adt=S_, name="set_check")
            if b is not None:
                S = Sites(lib, b)
                cs = [s for s in S.calls if s["c"].adt == PK]
                ctx.check(len(cs) == 1 and cs[0]["name"] == "set_b" and m(F(Par(1), "opos_ch", S_), cs[0]["args"][0]) and m(Par(2), cs[0]["args"][1])
                          and not S.stores, "ACC-STATE", b, "setter:set_check", b.span, "set_check must store x in the low byte of opos_ch (set_b)")
            b = lib.one_body(adt=S_, name="set_output_pos")
            if b is not None:
                S = Sites(lib, b)
                cs = [s for s in S.calls if s["c"].adt == PK]
                val = C("core::option::Option::map_or", Par(2), K(0), ("fn", "core::num::NonZero::get"))
                ok = len(cs) == 1 and cs[0]["name"] == "set_a" and m(F(Par(1), "opos_ch", S_), cs[0]["args"][0]) and not S.stores
                if ok:
                    a1 = cs[0]["args"][1]
                    alt = Phi(K(0), OneOfP(), req=[0, 1])
                    ok = m(val, a1) or m(P(C(endswith("try_from@intpack::U24"), val)), a1) or m(alt, a1)
                ctx.check(ok, "ACC-STATE", b, "setter:set_output_pos", b.span,
                          "set_output_pos must store x.map_or(0, get) (range-checked as U24) in the high 24 bits of opos_ch (set_a)")
            # ---- packing
            _packing(ctx, lib, PK)
            _getter(ctx, lib, "intpack::U24", "get", F(Par(1), "0", "intpack::U24"), "ACC-PACK", "self.0")
            c = lib.consts.get("intpack::U24::MAX")
            ctx.check(c is not None and c["val"] == 0xFFFFFF, "ACC-PACK", "intpack::U24", "max-const", "", "U24::MAX must be 0x00ff_ffff")
            tb = [b for b in lib.bodies.values() if b.j.get("impl_adt") == "intpack::U24" and b.j.get("impl_trait") == "core::convert::TryFrom" and b.name == "try_from"]
            if len(tb) == 1:
                S = Sites(lib, tb[0])
                from . import cond
                tbb = tb[0]

                def in_range(val):
                    # the proposition `v <= 0x00ff_ffff` in any comparison form
                    return [(lambda t: cond.le_const(t, lambda x: m(Par(1), x), 0xFFFFFF) is True, val),
                            (lambda t: cond.le_const(t, lambda x: m(Par(1), x), 0xFFFFFF) is False, not val)]
                oks = {bi for bi, si, st in tbb.stmts() if st["k"] == "assign" and st["lhs"]["local"] == 0 and not st["lhs"]["proj"] and
                       st["rv"]["k"] == "aggregate" and st["rv"].get("variant") == "Ok"}
                errs = {bi for bi, si, st in tbb.stmts() if st["k"] == "assign" and st["lhs"]["local"] == 0 and not st["lhs"]["proj"] and
                        st["rv"]["k"] == "aggregate" and st["rv"].get("variant") == "Err"}
                v_in = cond.explore(S.root, [0], in_range(True))
                v_out = cond.explore(S.root, [0], in_range(False))
                t = pnorm(S.root.ret())
                okv = any(x[0] == "agg" and x[2] == "Ok" and m(("agg", "intpack::U24", "U24", (("0", Par(1)),)), dict(x[3])["0"]) for x in members(t))
                ok = okv and v_in is not None and v_out is not None and bool(oks) and bool(errs) and \
                    bool(v_in & oks) and not (v_in & errs) and bool(v_out & errs) and not (v_out & oks)
                if not ok and not oks and not errs:
                    # combinator form: `(v <= MAX).then(|| U24(v)).ok_or(msg)` — Ok-ness of the returned term under both assumptions,
                    # payload = what the closure / the then_some argument builds
                    s_in = cond.Explorer(S.root, in_range(True), some_atoms=[(lambda x: False, True)]).is_some_term(t)
                    s_out = cond.Explorer(S.root, in_range(False), some_atoms=[(lambda x: False, True)]).is_some_term(t)
                    pay = None
                    for x in walk(t):
                        if x[0] == "call" and isinstance(x[1], str) and core.callee_base(x[1]) in ("core::bool::then", "core::bool::then_some") and len(x[2]) == 2:
                            a1 = x[2][1]
                            if a1[0] == "closure":
                                cr = S.fv.closure_ret(a1[1])
                                pay = pnorm(cr) if cr is not None else None
                            else:
                                pay = a1
                    okp = pay is not None and m(("agg", "intpack::U24", "U24", (("0", Par(1)),)), pay)
                    ok = s_in is True and s_out is False and okp
                ctx.check(ok, "ACC-PACK", tb[0], "u24-range-check", tb[0].span, "U24::try_from(v) must be Ok(U24(v)) exactly when v <= 0x00ff_ffff")
            else:
                ctx.missing("ACC-PACK", "TryFrom<u32> for U24")
        # ---- Output
        O = v.O
        for f in ("value", "length", "parent"):
            _getter(ctx, lib, O, f, F(Par(1), f, O), "ACC-OUT", "self." + f)
        nb = lib.one_body(adt=O, name="new")
        if nb is not None:
            t = _ret(lib, nb)
            ok = t[0] == "agg" and t[1] == O and m(Par(1), dict(t[3]).get("value")) and m(Par(2), dict(t[3]).get("length")) and m(Par(3), dict(t[3]).get("parent"))
            ctx.check(ok, "ACC-OUT", nb, "ctor:new", nb.span, "Output::new(value, length, parent) must store its arguments in the fields of the same name; builds %s" % show(t))
    # ---- Match
    M = "Match"
    _getter(ctx, lib, M, "start", B("Sub", F(Par(1), "end", M), F(Par(1), "length", M)), "VAL-LEN", "self.end - self.length")
    _getter(ctx, lib, M, "end", F(Par(1), "end", M), "VAL-LEN", "self.end")
    _getter(ctx, lib, M, "value", F(Par(1), "value", M), "VAL-LEN", "self.value")
    # length is a NonZero payload end to end: Output.length is only ever written from NonZero::get of the registered length
    # (checked by NFA-OUT record-fields); Match.length only from Output::length (VAL-MATCH)


# ----------------------------------------------------------------------------- KIND-PRED

def _eval_pred(lib, b, variant, variants):
    """evaluate a `fn(self: MatchKind) -> bool` body for one variant by constant folding (finite table extraction)"""
    env = {1: ("variant", variant)}
    bi = 0
    steps = 0

    def val(op):
        if op["k"] in ("copy", "move"):
            pl = op["place"]
            x = env.get(pl["local"])
            return x
        if op["k"] == "const":
            if "bits" in op:
                return ("int", op["bits"])
            if op.get("promoted"):
                pb = lib.bodies.get(op["text"])
                if pb is not None:
                    for blk in pb.blocks:
                        for st in blk["stmts"]:
                            if st["k"] == "assign" and st["rv"]["k"] == "aggregate" and st["rv"].get("adt") == "MatchKind":
                                return ("variant", st["rv"]["variant"])
        return None
    while steps < 200:
        steps += 1
        blk = b.blocks[bi]
        for st in blk["stmts"]:
            if st["k"] != "assign" or st["lhs"]["proj"]:
                continue
            rv = st["rv"]
            l = st["lhs"]["local"]
            if rv["k"] == "use":
                env[l] = val(rv["op"])
            elif rv["k"] == "ref":
                env[l] = env.get(rv["place"]["local"])
            elif rv["k"] == "aggregate" and rv.get("adt") == "MatchKind":
                env[l] = ("variant", rv["variant"])
            elif rv["k"] == "discr":
                x = env.get(rv["place"]["local"])
                env[l] = ("int", variants[x[1]]) if x and x[0] == "variant" else None
            elif rv["k"] == "binop" and rv["op"] in ("Eq", "Ne"):
                a, c = val(rv["l"]), val(rv["r"])
                if a is None or c is None:
                    env[l] = None
                else:
                    r = (a == c) if rv["op"] == "Eq" else (a != c)
                    env[l] = ("int", 1 if r else 0)
            elif rv["k"] == "unop" and rv["op"] == "Not":
                x = val(rv["x"])
                env[l] = ("int", 1 - x[1]) if x else None
            else:
                env[l] = None
        t = blk["term"]
        k = t["k"]
        if k == "return":
            r = env.get(0)
            return None if r is None else bool(r[1])
        if k == "goto":
            bi = t["target"]
        elif k == "call":
            c = core.Callee(t["func"]["fn"]) if "fn" in t["func"] else None
            a = [val(x) for x in t["args"]]
            if c and core.callee_base(c.key) in ("core::cmp::PartialEq::eq", "core::cmp::PartialEq::ne") and None not in a:
                r = a[0] == a[1]
                if c.name == "ne":
                    r = not r
                env[t["dest"]["local"]] = ("int", 1 if r else 0)
            elif c and c.body_path in lib.bodies and len(a) == 1 and a[0] is not None and a[0][0] == "variant" and \
                    lib.bodies[c.body_path].j.get("impl_adt") == "MatchKind" and c.body_path != b.path:
                # one predicate written in terms of another (`is_leftmost = !self.is_standard()`): fold the callee too
                r = _eval_pred(lib, lib.bodies[c.body_path], a[0][1], variants)
                if r is None:
                    return None
                env[t["dest"]["local"]] = ("int", 1 if r else 0)
            else:
                return None
            bi = t["target"]
        elif k == "switch":
            d = val(t["discr"])
            if d is None:
                return None
            nxt = t["otherwise"]
            for v_, tb in t["targets"]:
                if v_ == d[1]:
                    nxt = tb
            bi = nxt
        else:
            return None
    return None


def rule_kind_pred(ctx, R):
    lib = ctx.lib
    adt = lib.adts.get("MatchKind")
    if adt is None:
        ctx.missing("KIND-PRED", "MatchKind")
        return
    variants = {v["name"]: v["discr"] for v in adt["variants"]}
    want = {"is_standard": {"Standard"}, "is_leftmost": {"LeftmostLongest", "LeftmostFirst"}, "is_leftmost_first": {"LeftmostFirst"}}
    ctx.check(set(variants) == {"Standard", "LeftmostLongest", "LeftmostFirst"}, "KIND-PRED", "MatchKind", "variants", adt["span"],
              "MatchKind has exactly the three documented kinds; found %s" % sorted(variants))
    for name, true_for in want.items():
        b = lib.one_body(adt="MatchKind", name=name)
        if b is None:
            ctx.missing("KIND-PRED", "MatchKind::" + name)
            continue
        table = {vn: _eval_pred(lib, b, vn, variants) for vn in variants}
        ok = all(table[vn] == (vn in true_for) for vn in variants)
        ctx.check(ok, "KIND-PRED", b, "truth-table:" + name, b.span,
                  "MatchKind::%s must be true exactly for %s; table %s" % (name, sorted(true_for), table))
