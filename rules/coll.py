"""Additions to a growable container, independent of the source form:
     for x in it { if keep(x) { v.push(f(x)) } }     (push in a loop, any guard form)
     v.extend(it.filter(keep).map(f))                 (iterator pipeline)
Each addition is described by the element term, the element before the final map, the pull it comes from and a decision
procedure `kept_iff(pred, polarity)`: the element is added exactly when the atomic condition has that truth value."""
from . import core, cond
from .core import walk
from .view import pnorm
from .search import switches_on, opt_arms

PUSH = "alloc::vec::Vec::push"
EXTEND = "core::iter::Extend::extend"
ITER_NEXT = "core::iter::Iterator::next"


def _unfilter(t):
    """item(filter(X, c)) -> item(X): filtering does not change the items that pass"""
    def r(x):
        if not isinstance(x, tuple) or not x or not isinstance(x[0], str):
            return x
        if x[0] == "item" and x[1][0] == "call" and isinstance(x[1][1], str) and \
                core.callee_base(x[1][1]) == "core::iter::Iterator::filter" and x[1][2]:
            return r(("item", x[1][2][0]))
        if x[0] == "call":
            return ("call", x[1], tuple(r(a) for a in x[2]), x[3])
        if x[0] in ("payload", "some", "item"):
            return (x[0], r(x[1]))
        return x
    return r(t)


class Addition:
    def __init__(self, S, site, kind, val, src, filters=None, pull=None):
        self.S = S
        self.site = site
        self.bb = site["bb"]
        self.kind = kind
        self.val = val
        self.src = src
        self.filters = filters or []
        self.pull = pull

    def unconditional(self):
        """every element produced by the source is added (no condition on the path to the push)"""
        if self.filters:
            return False
        if self.kind == "extend":
            return True
        if self.kind == "for_each":
            cb = self.site["vw"].body
            return all(cb.dominates(self.bb, r) for r in cb.return_blocks())
        if self.pull is None:
            return False
        root = self.S.root
        b = root.body
        psw = switches_on(root, lambda d: d[0] == "discr" and d[1][0] == "call" and d[1][3] == (b.path, self.pull))
        if len(psw) != 1:
            return False
        head = opt_arms(psw[0][1])[0]
        return self.pull not in (b.reach(head, avoid_blocks=[self.bb]) - ({head} if head != self.bb else set()))

    def kept_iff(self, pred, pol):
        """the element is added exactly when the condition matched by `pred` has truth value `pol`"""
        root = self.S.root
        b = root.body
        if self.kind == "extend":
            if len(self.filters) != 1:
                return False
            f = self.filters[0]
            yes = cond.Explorer(root, [(pred, pol)]).eval_term(f)
            no = cond.Explorer(root, [(pred, not pol)]).eval_term(f)
            return yes is True and no is False
        if self.pull is None:
            return False
        for f in self.filters:
            # filters of the loop's iterator expression (for x in it.filter(c) { push })
            if cond.Explorer(root, [(pred, pol)]).eval_term(f) is not True:
                return False
        filt_no = any(cond.Explorer(root, [(pred, not pol)]).eval_term(f) is False for f in self.filters)
        psw = switches_on(root, lambda d: d[0] == "discr" and d[1][0] == "call" and d[1][3] == (b.path, self.pull))
        if len(psw) != 1:
            return False
        head = opt_arms(psw[0][1])[0]
        rets = b.return_blocks()
        # kept: every path through the iteration that does not leave by an error return reaches the push;
        # dropped: no path reaches it
        v_yes = cond.explore(root, [head], [(pred, pol)], stop={self.bb})
        v_no = cond.explore(root, [head], [(pred, not pol)], stop={self.pull})
        if v_yes is None or v_no is None:
            return False
        # neither case may END the iteration over the source (a `break` where `continue` was meant drops every later element):
        # the only edges that leave the loop are the error exits of `?`
        comp = next((c for c in b.sccs() if self.pull in c), None)
        if comp is not None:
            v_after = cond.explore(root, [self.bb], [(pred, pol)], stop={self.pull})
            for vis in (v_no, v_yes, v_after or set()):
                for x in vis & comp:
                    if x == self.pull:
                        continue
                    for y in b.succ(x):
                        if y not in comp and not self._is_try_break(root, b, x, y):
                            return False
        return self.bb in v_yes and self.pull not in v_yes and (filt_no or self.bb not in v_no)

    @staticmethod
    def _is_try_break(root, b, x, y):
        t = b.blocks[x]["term"]
        if t["k"] != "switch":
            return False
        d = root.op(t["discr"])
        if not (d[0] == "discr" and d[1][0] == "call" and isinstance(d[1][1], str) and core.callee_base(d[1][1]) == "core::ops::Try::branch"):
            return False
        cont = [tb for val, tb in t["targets"] if val == 0]
        return bool(cont) and y != cont[0]


def _pipeline(S, a, site, b):
    """peel `.map(f)` / `.filter(c)` off an iterator expression: (element term, source item, filter conditions)"""
    val = None
    filters = []
    for _ in range(6):
        if a[0] != "call" or not isinstance(a[1], str):
            break
        ab = core.callee_base(a[1])
        if ab == "core::iter::Iterator::map" and len(a[2]) == 2 and a[2][1][0] == "closure" and val is None and not filters:
            val = S.fv.closure_ret(a[2][1][1])
            a = a[2][0]
        elif ab == "core::iter::Iterator::map" and len(a[2]) == 2 and a[2][1][0] == "fn" and val is None and not filters:
            # a function item as the mapper (`.map(str::to_string)`): the element is f(item)
            val = ("call", a[2][1][1], (("item", a[2][0]),), (b.path, site["bb"]))
            a = a[2][0]
        elif ab == "core::iter::Iterator::filter" and len(a[2]) == 2 and a[2][1][0] == "closure":
            cr = S.fv.closure_ret(a[2][1][1])
            filters.append(_unfilter(pnorm(cr)) if cr is not None else ("unknown", "filter"))
            a = a[2][0]
        elif ab in ("core::iter::IntoIterator::into_iter",):
            a = a[2][0]
        else:
            break
    src = ("item", a)
    val = _unfilter(pnorm(val)) if val is not None else src
    return val, src, filters


def additions(S, is_cont, closures=False):
    """all additions to the container(s) satisfying is_cont(term) made in the root body of S (closures=True: also a push in
    the closure of `it.for_each(|x| v.push(..))`, whose element is the closure's item)"""
    out = []
    b = S.root.body
    for s in S.calls:
        if not s["args"] or not is_cont(s["args"][0]):
            continue
        if s["vw"] is not S.root:
            if closures and core.callee_base(s["key"]) == PUSH and s["vw"].via is not None and \
                    core.callee_base(s["vw"].via[1]) == "core::iter::Iterator::for_each" and s["vw"].parent is S.root:
                out.append(Addition(S, s, "for_each", s["args"][1], s["args"][1]))
            continue
        base = core.callee_base(s["key"])
        if base == PUSH:
            val = s["args"][1]
            pulls = [p["bb"] for p in S.calls if p["vw"] is S.root and core.callee_base(p["key"]) == ITER_NEXT and b.in_cycle(p["bb"])
                     and b.dominates(p["bb"], s["bb"]) and any(x[0] == "call" and x[3] == (b.path, p["bb"]) for x in walk(val))]
            filters = []
            if pulls:
                from .pat import iter_origin
                psite = [p for p in S.calls if p["vw"] is S.root and p["bb"] == pulls[-1]][0]
                a = iter_origin(psite["args"][0], peel_filter=False)
                for _ in range(4):
                    if a[0] == "call" and isinstance(a[1], str) and core.callee_base(a[1]) == "core::iter::Iterator::filter" and \
                            len(a[2]) == 2 and a[2][1][0] == "closure":
                        cr = S.fv.closure_ret(a[2][1][1])
                        filters.append(_unfilter(pnorm(cr)) if cr is not None else ("unknown", "filter"))
                        a = iter_origin(a[2][0], peel_filter=False)
                    else:
                        break
            out.append(Addition(S, s, "push", val, val, filters=filters, pull=pulls[-1] if pulls else None))
        elif base == EXTEND:
            val, src, filters = _pipeline(S, s["args"][1], s, b)
            out.append(Addition(S, s, "extend", val, src, filters=filters))
    # the container created by collecting an iterator: `let mut v: Vec<_> = it.filter(c).map(f).collect();`
    for s in S.calls:
        if s["vw"] is S.root and core.callee_base(s["key"]) == "core::iter::Iterator::collect" and len(s["args"]) == 1 and \
                not s["tj"]["dest"]["proj"]:
            dl = s["tj"]["dest"]["local"]
            if is_cont(("var", b.local_names.get(dl, "_%d" % dl), dl)):
                val, src, filters = _pipeline(S, s["args"][0], s, b)
                out.append(Addition(S, s, "extend", val, src, filters=filters))
    return out
