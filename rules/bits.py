"""Bit-level abstract evaluation of packing expressions (ACC-PACK).

A value is a list of W bit descriptors, each a frozenset of atoms: the bit is the OR of its atoms; an atom is ("1",) or
(var, k) = bit k of the input `var`.  Supported: constants, inputs, `&`/`|` , `<<`/`>>` by constants, integer casts
(truncation / zero extension), `to_le_bytes()[i]` / `to_be_bytes()[i]`, calls of other accessors of the packed type (evaluated
from their own bodies).  `a & b` of two non-constant operands is supported when, bit by bit, one side is a constant 0/1 or both
sides are the same single atom.  Anything else makes the expression *unknown* (the rule then fails closed).
Two expressions agree iff all W descriptors are equal — `(w >> 8)`, `(w & 0xffff_ff00) >> 8` and `u32::from_le_bytes([b1,b2,b3,0])`
are the same function, `(w & 0x00ff_ff00) >> 8` is not."""
from . import core

ZERO = frozenset()
ONE = frozenset({("1",)})


class Unknown(Exception):
    pass


def const_bits(v, w):
    return [ONE if (v >> i) & 1 else ZERO for i in range(w)]


def var_bits(name, nbits, w):
    return [frozenset({(name, i)}) if i < nbits else ZERO for i in range(w)]


WIDTH = {"u8": 8, "u16": 16, "u32": 32, "u64": 64, "usize": 64, "i8": 8, "i16": 16, "i32": 32, "i64": 64}


def is_zero(v):
    return all(x == ZERO for x in v)


def ev(t, env, w=32, call=None, depth=0):
    """env(term) -> bits or None; call(key, arg_bits) -> bits or raises Unknown"""
    if depth > 30:
        raise Unknown()
    r = env(t)
    if r is not None:
        return r
    k = t[0]
    if k == "const" and isinstance(t[1], bool):
        return const_bits(int(t[1]), w)
    if k == "const" and isinstance(t[1], int):
        return const_bits(t[1], w)
    if k == "const" and t[1] in ("true", "false"):
        return const_bits(1 if t[1] == "true" else 0, w)
    if k in ("bin", "ovf"):
        op = t[1]
        if op in ("Shl", "Shr"):
            if t[3][0] != "const" or not isinstance(t[3][1], int):
                raise Unknown()
            a = ev(t[2], env, w, call, depth + 1)
            n = t[3][1]
            if op == "Shl":
                return [ZERO] * min(n, w) + a[:max(0, w - n)]
            return a[n:] + [ZERO] * min(n, w)
        a = ev(t[2], env, w, call, depth + 1)
        b = ev(t[3], env, w, call, depth + 1)
        if op == "BitOr":
            return [ONE if ("1",) in (x | y) else (x | y) for x, y in zip(a, b)]
        if op == "BitAnd":
            out = []
            for x, y in zip(a, b):
                if x == ZERO or y == ZERO:
                    out.append(ZERO)
                elif x == ONE:
                    out.append(y)
                elif y == ONE:
                    out.append(x)
                elif x == y and len(x) == 1:
                    out.append(x)
                else:
                    raise Unknown()
            return out
        if op == "BitXor":
            out = []
            for x, y in zip(a, b):
                if x == ZERO:
                    out.append(y)
                elif y == ZERO:
                    out.append(x)
                else:
                    raise Unknown()
            return out
        if op == "Ne" and (is_zero(a) or is_zero(b)):
            # x != 0  is the OR of all bits of x
            v = b if is_zero(a) else a
            u = frozenset().union(*v)
            return [ONE if ("1",) in u else u] + [ZERO] * (w - 1)
        if op == "Add":
            # a + b with disjoint bit supports is a | b
            if all(x == ZERO or y == ZERO for x, y in zip(a, b)):
                return [x | y for x, y in zip(a, b)]
        raise Unknown()
    if k == "un" and t[1] == "Not":
        # bitwise complement of a constant mask (`!B_MASK`): every bit must be a known constant
        a = ev(t[2], env, w, call, depth + 1)
        if all(x in (ZERO, ONE) for x in a):
            return [ZERO if x == ONE else ONE for x in a]
        raise Unknown()
    if k == "cast":
        a = ev(t[1], env, w, call, depth + 1)
        tw = WIDTH.get(t[3])
        if tw is None:
            raise Unknown()
        return [a[i] if i < tw else ZERO for i in range(w)]
    if k == "elem" and t[1][0] == "call" and isinstance(t[1][1], str) and t[2][0] == "const":
        nm = t[1][1].split("::")[-1]
        if nm in ("to_le_bytes", "to_be_bytes") and len(t[1][2]) == 1:
            a = ev(t[1][2][0], env, w, call, depth + 1)
            i = t[2][1]
            nbytes = w // 8
            j = i if nm == "to_le_bytes" else nbytes - 1 - i
            return [a[8 * j + q] if q < 8 else ZERO for q in range(w)]
    if k == "call" and isinstance(t[1], str) and call is not None:
        return call(t, depth)
    if k == "agg" and len(t[3]) == 1:
        # newtype wrapper (U24(x)): the wrapped value
        return ev(t[3][0][1], env, w, call, depth + 1)
    if k == "field" and t[1][0] == "agg":
        return ev(dict(t[1][3]).get(t[3]), env, w, call, depth + 1)
    raise Unknown()
