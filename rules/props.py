"""Property -> rule groups (DESIGN §4) and the command line entry point."""
import json
import os
import sys
import time

from . import core, engine, roles as roles_mod
from . import search, nfa

TRUSTED = [
    "L1: for a power of two B, x < kB and c < B imply x ^ c < kB; next_power_of_two(n) >= n",
    "L2: core/alloc behave as documented (Enumerate, Vec, BTreeMap order, to/from_le_bytes, len_utf8, NonZeroU32); rustc's type checker, borrow checker and MIR construction",
    "L3: the checker itself (/verif/driver, /verif/rules), mitigated by the seeded self-tests",
]
ASSUME = [
    "A-ASREF: the caller's AsRef<str>/AsRef<[u8]> implementation is pure",
    "A-USERIMPL: user Serializable / TryFrom<usize> / source iterators are deterministic (and Serializable impls are inverse pairs)",
    "A-TARGET: facts are extracted for the host target (64-bit)",
    "structural clauses only: the rules decide necessary conditions visible in the code's shape, not the behaviour over all inputs",
]


def run_C01(ctx, R):
    search.rule_iter_standard(ctx, R, kinds=("overlapping",))
    search.rule_trans(ctx, R)


def run_C02(ctx, R):
    search.rule_iter_standard(ctx, R, kinds=("find",))
    search.rule_trans(ctx, R)


def run_C03(ctx, R):
    search.rule_iter_leftmost(ctx, R)
    search.rule_trans(ctx, R)


def run_C04(ctx, R):
    search.rule_iter_leftmost(ctx, R)
    search.rule_trans(ctx, R)


def run_C05(ctx, R):
    search.rule_iter_standard(ctx, R, kinds=("nosuffix",))
    search.rule_trans(ctx, R)


def run_C07(ctx, R):
    search.rule_safe_idx(ctx, R)
    search.rule_safe_param(ctx, R)
    search.rule_safe_field(ctx, R)


def run_NFA(ctx, R):
    NR = nfa.NfaRoles(ctx, R)
    nfa.rule_outputs_pass(ctx, R, NR)
    nfa.rule_fail_passes(ctx, R, NR)
    nfa.rule_add(ctx, R, NR)
    nfa.rule_num_bytes(ctx, R, NR)


PROPS = {
    "NFA": (run_NFA, False, "dev: all nfa rules"),
    "C01": (run_C01, False, "ITER(overlapping) TRANS: structural necessary conditions of overlapping search"),
    "C02": (run_C02, False, "ITER(find) TRANS"),
    "C03": (run_C03, False, "ITER-LM TRANS(leftmost)"),
    "C04": (run_C04, False, "ITER-LM TRANS(leftmost) NFA-LF"),
    "C05": (run_C05, False, "ITER(no-suffix) TRANS"),
    "C07": (run_C07, False, "SAFE-*"),
}


def main(argv):
    if not argv:
        print(__doc__)
        return 2
    prop = argv[0]
    tier = os.environ.get("VERIF_TIER", "quick")
    facts_dir = None
    replay = None
    i = 1
    while i < len(argv):
        if argv[i] == "--tier":
            tier = argv[i + 1]
            i += 2
        elif argv[i] == "--facts":
            facts_dir = argv[i + 1]
            i += 2
        elif argv[i] == "--replay":
            replay = argv[i + 1]
            i += 2
        else:
            i += 1
    if prop not in PROPS:
        print("unknown property", prop)
        return 2
    seed = int(os.environ.get("VERIF_SEED", "0") or 0)
    fn, need_ws, expl = PROPS[prop]
    t0 = time.time()
    crates = core.load_dir(facts_dir) if facts_dir else core.extract(workspace=need_ws)
    ctx = engine.Ctx(prop, crates, tier)
    R = roles_mod.Roles(ctx)
    fn(ctx, R)
    if replay:
        with open(replay) as f:
            want = json.load(f)
        hits = [o for o in ctx.obl if o["key"] == want.get("key")]
        for o in hits:
            print(json.dumps(o, indent=1, default=str))
        bad = [o for o in hits if o["status"] == "violation"]
        if bad:
            print("VIOLATION property=%s replay=%s" % (prop, replay))
            return 1
        print("replay: obligation %s is %s on the current tree" % (want.get("key"), "discharged" if hits else "absent"))
        return 0
    return engine.finish(ctx, t0, expl, ASSUME, TRUSTED, seed=seed)
