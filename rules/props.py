"""Property -> rule groups (DESIGN §4) and the command line entry point."""
import json
import os
import sys
import time

from . import core, engine, roles as roles_mod
from . import search, nfa, da, ser, cli, pure, lazy, helper, misc, acc

TRUSTED = [
    "L1: for a power of two B, x < kB and c < B imply x ^ c < kB; next_power_of_two(n) >= n",
    "L2: core/alloc behave as documented (Enumerate, Vec, BTreeMap order, to/from_le_bytes, len_utf8, NonZeroU32); rustc's type checker, borrow checker and MIR construction",
    "L3: the checker itself (/verif/driver, /verif/rules), mitigated by the seeded self-tests",
]
ASSUME = [
    "A-ASREF: the caller's AsRef<str>/AsRef<[u8]> implementation is pure — assumed for the FUNCTIONAL properties only (a haystack is a "
    "value); for memory safety (C07) it is not assumed: SAFE-ASREF decides which unsafe operations depend on it",
    "A-USERIMPL: user Serializable / TryFrom<usize> / source iterators are deterministic (and Serializable impls are inverse pairs)",
    "A-TARGET: facts are extracted for the host target (64-bit)",
    "structural clauses only: the rules decide necessary conditions visible in the code's shape, not the behaviour over all inputs",
]


class Env:
    """lazily resolved role tables shared by the rule groups of one run"""

    def __init__(self, ctx, R):
        self.ctx, self.R = ctx, R
        self._nr = self._br = None

    @property
    def NR(self):
        if self._nr is None:
            self._nr = nfa.NfaRoles(self.ctx, self.R)
            if self._nr.ok:
                # classify the fail passes (standard / leftmost) without recording obligations
                saved = list(self.ctx.obl), set(self.ctx._seen_keys)
                nfa.rule_fail_passes(self.ctx, self.R, self._nr)
                self.ctx.obl[:] = saved[0]
                self.ctx._seen_keys = saved[1]
        return self._nr

    @property
    def BR(self):
        if self._br is None:
            self._br = da.BuilderRoles(self.ctx, self.R, self.NR)
        return self._br


def construction_rules(ctx, R, E):
    """NFA + DA groups shared by C01-C05: the automaton the iterators walk is built correctly"""
    nfa.rule_outputs_pass(ctx, R, E.NR)
    nfa.rule_fail_passes(ctx, R, E.NR)
    da.rule_placement(ctx, R, E.NR, E.BR, rules={"DA-EDGE", "DA-BASE", "B-BASE", "B-EXT", "B-FAIL", "B-OPOS", "KNOB-SAN"})
    da.rule_find_base(ctx, R, E.NR, E.BR)
    da.rule_dispatch(ctx, R, E.NR, E.BR, rules={"NFA-DISPATCH", "CW-NB", "VALID-PROP"})
    nfa.rule_add(ctx, R, E.NR, rules={"VAL-ADD", "STAT-NS"})
    nfa.rule_num_bytes(ctx, R, E.NR)
    nfa.rule_child_id(ctx, R, E.NR)
    da.rule_builder_config(ctx, R)
    da.rule_build_entry(ctx, R, E.NR, E.BR, rules={"B-MOVE"})
    da.rule_sanitiser(ctx, R, E.NR, E.BR)
    da.rule_array_growth(ctx, R, E.NR, E.BR)
    helper.rule_helper(ctx, R)
    pure.rule_mapper(ctx, R)
    acc.rule_accessors(ctx, R)
    acc.rule_kind_pred(ctx, R)
    lazy.rule_lazy_ctor(ctx, R, rules={"LAZY-CTOR"})
    # "every automaton" includes one restored from its image: the round-trip identity (C09's rules) carries values, lengths, tables
    # and the match kind over unchanged
    ser.rule_ser(ctx, R)


def run_C01(ctx, R):
    E = Env(ctx, R)
    search.rule_iter_standard(ctx, R, kinds=("overlapping",))
    search.rule_trans(ctx, R)
    construction_rules(ctx, R, E)


def run_C02(ctx, R):
    E = Env(ctx, R)
    search.rule_iter_standard(ctx, R, kinds=("find",))
    search.rule_trans(ctx, R)
    construction_rules(ctx, R, E)


def run_C03(ctx, R):
    E = Env(ctx, R)
    search.rule_iter_leftmost(ctx, R)
    search.rule_trans(ctx, R)
    construction_rules(ctx, R, E)


def run_C04(ctx, R):
    E = Env(ctx, R)
    search.rule_iter_leftmost(ctx, R)
    search.rule_trans(ctx, R)
    nfa.rule_add(ctx, R, E.NR, rules={"NFA-LF", "STAT-SHADOW", "VAL-ADD"})
    construction_rules(ctx, R, E)


def run_C05(ctx, R):
    E = Env(ctx, R)
    search.rule_iter_standard(ctx, R, kinds=("nosuffix",))
    search.rule_trans(ctx, R)
    construction_rules(ctx, R, E)


def run_C06(ctx, R):
    E = Env(ctx, R)
    search.rule_iter_standard(ctx, R, rules={"VAL-MATCH", "ITER-HEAD", "LAZY-END"})
    search.rule_iter_leftmost(ctx, R, rules={"VAL-MATCH", "ITER-HEAD"})
    nfa.rule_add(ctx, R, E.NR, rules={"VAL-ADD"})
    nfa.rule_outputs_pass(ctx, R, E.NR)
    nfa.rule_num_bytes(ctx, R, E.NR)
    da.rule_dispatch(ctx, R, E.NR, E.BR, rules={"VALID-PROP", "CW-NB"})
    da.rule_build_entry(ctx, R, E.NR, E.BR, rules={"VAL-IDX", "B-MOVE"})
    # "haystack[start..end] is one of the registered patterns": no phantom transitions (unique bases, CHECK discipline)
    da.rule_placement(ctx, R, E.NR, E.BR, rules={"DA-EDGE", "DA-BASE", "B-BASE", "KNOB-SAN"})
    da.rule_find_base(ctx, R, E.NR, E.BR)
    da.rule_sanitiser(ctx, R, E.NR, E.BR)
    # ... which rests on the helper's used-base / used-index bookkeeping (a forgotten used-base flag lets two states share a BASE:
    # the search then reports text that is no registered pattern)
    helper.rule_helper(ctx, R)
    # "before and after a serialization round trip"
    ser.rule_ser(ctx, R)
    acc.rule_accessors(ctx, R)
    # offsets: the adapters / decoder that feed positions to every iterator, and the constructors that start them at 0
    lazy.rule_lazy_adapt(ctx, R)
    lazy.rule_lazy_ctor(ctx, R, rules={"LAZY-CTOR"})
    lazy.rule_dec(ctx, R)
    # "haystack[start..end] is byte-for-byte a registered pattern" on the char-wise side: the code mapper is injective on pattern
    # characters and maps every other character to "no transition" (two characters sharing a code make a foreign text match)
    pure.rule_mapper(ctx, R)
    da.rule_dispatch(ctx, R, E.NR, E.BR, rules={"B-MAP"})
    search.rule_trans(ctx, R)
    search.rule_iter_leftmost(ctx, R, rules={"ITER-LM", "SAFE-STR", "ITER-LABEL"})


def run_C07(ctx, R):
    E = Env(ctx, R)
    search.rule_safe_idx(ctx, R)
    search.rule_safe_param(ctx, R)
    search.rule_safe_field(ctx, R)
    search.rule_iter_leftmost(ctx, R, rules={"SAFE-STR", "ITER-LM", "ITER-STATE", "ITER-OUT", "ITER-HEAD"})
    search.rule_iter_standard(ctx, R, rules={"ITER-STATE", "ITER-OUT", "ITER-HEAD", "ITER-CHAIN", "LAZY-PULL"})
    search.rule_trans(ctx, R)
    # SAFE-DESER: tables may also enter through deserialize_unchecked; for images produced by serialize the
    # round-trip identity (C09's rules) transfers the invariants unchanged
    ser.rule_ser(ctx, R)
    nfa.rule_outputs_pass(ctx, R, E.NR)
    da.rule_placement(ctx, R, E.NR, E.BR, rules={"B-BASE", "B-EXT", "B-FAIL", "B-OPOS", "DA-EDGE"})
    da.rule_find_base(ctx, R, E.NR, E.BR)
    da.rule_array_growth(ctx, R, E.NR, E.BR)
    da.rule_build_entry(ctx, R, E.NR, E.BR, rules={"B-MOVE"})
    da.rule_dispatch(ctx, R, E.NR, E.BR, rules={"B-MAP"})
    pure.rule_mapper(ctx, R)
    pure.rule_pure_freeze(ctx, R)
    pure.rule_pure_self(ctx, R)
    lazy.rule_safe_inv(ctx, R)
    lazy.rule_safe_api(ctx, R)
    lazy.rule_utf8_ctor(ctx, R)
    lazy.rule_safe_asref(ctx, R)
    lazy.rule_dec(ctx, R)
    lazy.rule_lazy_adapt(ctx, R)
    lazy.rule_lazy_ctor(ctx, R, rules={"LAZY-CTOR"})
    acc.rule_accessors(ctx, R)
    acc.rule_kind_pred(ctx, R)


def run_C08(ctx, R):
    E = Env(ctx, R)
    pure.rule_mapper(ctx, R)
    lazy.rule_dec(ctx, R)
    lazy.rule_lazy_adapt(ctx, R)
    # CW-SIB: every iterator template holds on both siblings (same rules, instantiated bw + cw)
    search.rule_iter_standard(ctx, R)
    nfa.rule_num_bytes(ctx, R, E.NR)
    da.rule_dispatch(ctx, R, E.NR, E.BR, rules={"CW-NB"})
    search.rule_iter_leftmost(ctx, R)
    search.rule_trans(ctx, R)
    acc.rule_accessors(ctx, R)
    lazy.rule_lazy_ctor(ctx, R, rules={"LAZY-CTOR"})
    da.rule_placement(ctx, R, E.NR, E.BR, rules={"DA-EDGE", "DA-BASE", "B-BASE", "B-FAIL", "B-OPOS"})
    da.rule_find_base(ctx, R, E.NR, E.BR)       # the char-wise table must be collision-free for the two variants to agree
    da.rule_array_growth(ctx, R, E.NR, E.BR)
    # ... which also rests on the shared helper's free-list / block-eviction discipline (both builders call the same helper, a
    # protocol change adapted in one sibling only breaks the other)
    helper.rule_helper(ctx, R)
    # "every search method" includes searching a char-wise automaton restored from its image: mapper pages, states, outputs
    ser.rule_ser(ctx, R)
    # the two variants run the SAME generic NFA passes on different tries (labels = bytes vs characters): a defect in a pass shows
    # on one side only when only that side's trie has the shape that triggers it
    nfa.rule_outputs_pass(ctx, R, E.NR)
    nfa.rule_fail_passes(ctx, R, E.NR)
    nfa.rule_add(ctx, R, E.NR, rules={"VAL-ADD", "STAT-NS", "NFA-LF", "STAT-SHADOW"})


def run_C09(ctx, R):
    ser.rule_ser(ctx, R)
    acc.rule_accessors(ctx, R)
    acc.rule_kind_pred(ctx, R)


def run_C10(ctx, R):
    E = Env(ctx, R)
    # (the whole add group: the duplicate / shadow verdicts are read off the node the walk ends at, so they are only as right as
    # the walk — lookups in the edge map from ROOT, a node created exactly when the child is missing)
    nfa.rule_add(ctx, R, E.NR)
    da.rule_dispatch(ctx, R, E.NR, E.BR, rules={"VALID-NONEMPTY", "VALID-PROP", "VALID-SCALE"})
    da.rule_build_entry(ctx, R, E.NR, E.BR, rules={"VALID-CONV", "VALID-ENTRY", "VALID-PROP"})
    misc.rule_valid_kind(ctx, R, E.NR, E.BR)
    # "never panics": the free-list / growth discipline whose assertions must never fire for valid input
    helper.rule_helper(ctx, R)
    da.rule_array_growth(ctx, R, E.NR, E.BR)
    da.rule_placement(ctx, R, E.NR, E.BR, rules={"B-EXT", "DA-EDGE"})
    # "within the documented size limits": the 24-bit value/length range is the documented limit; a narrower U24::MAX or
    # range test rejects valid collections with a scale error
    with ctx.only({"ACC-PACK"}):
        acc.rule_accessors(ctx, R)
    # "all builder settings ... never panics": the knob setter refuses exactly the documented value (0)
    da.rule_builder_config(ctx, R)


def run_C11(ctx, R):
    E = Env(ctx, R)
    helper.rule_helper(ctx, R)
    da.rule_builder_config(ctx, R)
    da.rule_array_growth(ctx, R, E.NR, E.BR)
    da.rule_sanitiser(ctx, R, E.NR, E.BR)
    da.rule_placement(ctx, R, E.NR, E.BR, rules={"KNOB-SAN", "DA-BASE", "B-EXT"})
    da.rule_find_base(ctx, R, E.NR, E.BR)
    # "... and the other properties (memory safety, state count) continue to hold": the reported state count comes from the NFA,
    # not from the knob-dependent array layout
    da.rule_build_entry(ctx, R, E.NR, E.BR, rules={"STAT-NS"})
    misc.rule_stat(ctx, R)


def run_C12(ctx, R):
    # (ITER-STATE: the automaton state carried between next() calls — "all interleavings of next() calls" — is only ever the
    # transition's result; a reset or a detour through the fail link between two calls loses matches that straddle the calls)
    search.rule_iter_standard(ctx, R, rules={"LAZY-PULL", "LAZY-END", "LAZY-NOBUF", "ITER-EXHAUST", "ITER-LABEL", "ITER-STATE"})
    lazy.rule_lazy_ctor(ctx, R)
    lazy.rule_lazy_adapt(ctx, R)
    lazy.rule_dec(ctx, R)


def run_C13(ctx, R):
    E = Env(ctx, R)
    misc.rule_term_loops(ctx, R)
    # a leftmost automaton (DEAD fail links) inside a standard scan loop would spin: the kind assertion of every
    # entry point and the MatchKind image decoding are part of the termination argument
    lazy.rule_lazy_ctor(ctx, R, rules={"LAZY-CTOR"})
    with ctx.only({"SER-MK"}):
        ser.rule_ser(ctx, R)
    acc.rule_kind_pred(ctx, R)
    acc.rule_accessors(ctx, R)
    search.rule_trans(ctx, R)
    # phantom transitions (shared bases, stale CHECKs) are what makes a scan super-linear or sends it into DEAD links:
    # the bound rests on the same construction clauses as C01-C05
    construction_rules(ctx, R, E)


def run_C14(ctx, R):
    E = Env(ctx, R)
    pure.rule_pure_self(ctx, R)
    pure.rule_pure_freeze(ctx, R)
    pure.rule_det_effect(ctx, R)
    pure.rule_perm_map(ctx, R, E.NR)
    pure.rule_mapper(ctx, R, rules={"B-MAP"})
    da.rule_dispatch(ctx, R, E.NR, E.BR, rules={"PERM-FREQ", "B-MAP"})
    # PERM-OUT / PERM-IDS: outputs are filled in queue order, the id-ordered pass writes only through state_id_map
    nfa.rule_outputs_pass(ctx, R, E.NR)
    nfa.rule_fail_passes(ctx, R, E.NR)
    # the trie is a function of the pattern SET: a child is looked up in / created through the ordered edge map only, never through a
    # cache of the previous registration
    nfa.rule_add(ctx, R, E.NR)
    da.rule_placement(ctx, R, E.NR, E.BR, rules={"B-FAIL", "B-OPOS", "DA-EDGE", "DA-BASE"})


def run_C15(ctx, R):
    E = Env(ctx, R)
    misc.rule_stat(ctx, R)
    da.rule_placement(ctx, R, E.NR, E.BR, rules={"DA-EDGE", "DA-BASE", "KNOB-SAN"})
    nfa.rule_fail_passes(ctx, R, E.NR)
    # STAT-REACH: a counted state stays reachable only if its CHECK is never overwritten and its base is unique
    da.rule_sanitiser(ctx, R, E.NR, E.BR)
    da.rule_find_base(ctx, R, E.NR, E.BR)
    da.rule_array_growth(ctx, R, E.NR, E.BR)
    nfa.rule_add(ctx, R, E.NR, rules={"STAT-NS", "STAT-SHADOW", "NFA-LF"})       # shadowed patterns create no states
    da.rule_build_entry(ctx, R, E.NR, E.BR, rules={"STAT-NS"})
    # ... and on the helper's slot bookkeeping (a slot taken without being flagged used is stamped over by the sanitiser: the
    # state placed there is counted but unreachable)
    helper.rule_helper(ctx, R)
    # the statistics of a restored automaton: num_states and the tables travel in the image
    ser.rule_ser(ctx, R)
    # a counted state is reachable only through BASE/CHECK words that are stored and read back bit-exactly (a CHECK accessor that
    # drops a bit makes every edge labelled with that bit unenterable: the subtree is counted but dead) — round 9, C15-r9-1
    with ctx.only({"ACC-PACK", "ACC-STATE"}):
        acc.rule_accessors(ctx, R)


def run_C16(ctx, R):
    cli.rule_cli_args(ctx, R)
    cli.rule_cli_guard(ctx, R)
    cli.rule_cli_pats(ctx, R)
    cli.rule_cli_lines(ctx, R)
    cli.rule_cli_print(ctx, R)
    cli.rule_cli_hl2(ctx, R)
    search.rule_iter_standard(ctx, R, kinds=("find", "nosuffix"), rules={"ITER-OUT", "ITER-HEAD", "LAZY-END", "ITER-STATE", "ITER-LABEL", "ITER-ONE"})
    # the line filter / interval union rest on the standard automaton being right: C02/C05's whole construction group (a phantom
    # transition on a NUL byte makes a matching line disappear)
    E = Env(ctx, R)
    search.rule_trans(ctx, R)
    construction_rules(ctx, R, E)


def run_NFA(ctx, R):
    NR = nfa.NfaRoles(ctx, R)
    nfa.rule_outputs_pass(ctx, R, NR)
    nfa.rule_fail_passes(ctx, R, NR)
    nfa.rule_add(ctx, R, NR)
    nfa.rule_num_bytes(ctx, R, NR)


def run_DA(ctx, R):
    E = Env(ctx, R)
    da.rule_placement(ctx, R, E.NR, E.BR)
    da.rule_find_base(ctx, R, E.NR, E.BR)
    da.rule_array_growth(ctx, R, E.NR, E.BR)
    da.rule_sanitiser(ctx, R, E.NR, E.BR)
    da.rule_dispatch(ctx, R, E.NR, E.BR)
    da.rule_build_entry(ctx, R, E.NR, E.BR)


PROPS = {
    "NFA": (run_NFA, False, "dev: all nfa rules"),
    "DA": (run_DA, False, "dev: all da rules"),
    "C01": (run_C01, False, "ITER(overlapping) TRANS NFA DA KNOB-SAN: structural necessary conditions of overlapping search"),
    "C02": (run_C02, False, "ITER(find) TRANS NFA DA"),
    "C03": (run_C03, False, "ITER-LM TRANS(leftmost) NFA-LM NFA-DISPATCH SAFE-STR"),
    "C04": (run_C04, False, "C03's groups + NFA-LF"),
    "C05": (run_C05, False, "ITER(no-suffix) TRANS NFA DA"),
    "C06": (run_C06, False, "VAL-* CW-NB LAZY-END"),
    "C07": (run_C07, False, "SAFE-* B-*"),
    "C08": (run_C08, False, "CW-* DEC"),
    "C09": (run_C09, False, "SER-*"),
    "C10": (run_C10, False, "VALID-*"),
    "C11": (run_C11, False, "KNOB-* DA-BASE"),
    "C12": (run_C12, False, "LAZY-*"),
    "C13": (run_C13, False, "TERM-*"),
    "C14": (run_C14, False, "PURE-* DET-EFFECT PERM-*"),
    "C15": (run_C15, False, "STAT-*"),
    "C16": (run_C16, True, "CLI-ARGS CLI-GUARD CLI-PATS + the two iterators the tool uses"),
}


ACCESSOR_ADTS = {"Match", "MatchKind", "Output", "Empty", "build_helper::ListItem", "build_helper::VacantIter", "intpack::U24", "intpack::U24nU8",
                 "charwise::mapper::CodeMapper", "bytewise::State", "charwise::State", "errors::DaachorseError",
                 "bytewise::iter::U8SliceIterator", "charwise::iter::StrIterator", "charwise::iter::CharWithEndOffsetIterator"}


def anchors_of(crates):
    """functions the rules talk about (never inlined): public API, trait-impl methods, methods of the accessor types and
    every function resolved as a role on the raw bodies"""
    ctx0 = engine.Ctx("-", crates)
    R0 = roles_mod.Roles(ctx0)
    E0 = Env(ctx0, R0)
    lib = crates["daachorse"]
    anchors = {"daachorse": set(), "daacfind": set()}
    a = anchors["daachorse"]
    for p, b in lib.bodies.items():
        j = b.j
        if j["kind"] != "AssocFn" and j["kind"] != "Fn":
            continue
        # (a private helper of an accessor type — `fn pack(..)` — is not part of the accessor vocabulary: it is inlined)
        if j["vis"] == "pub" or j.get("impl_trait") is not None or (j.get("impl_adt") in ACCESSOR_ADTS and not str(j["vis"]).startswith("in:")):
            a.add(p)
    for v in R0.variants():
        if not v.ok:
            continue
        a.update(v.unsafe_A)
        for b in list(v.methods.values()) + list(v.next.values()) + [v.build, v.build_with_values, v.new, v.with_values]:
            if b is not None:
                a.add(b.path)
    NR = E0.NR
    if NR.ok:
        for b in [NR.add, NR.new, NR.outputs_pass] + list(NR.fail_passes):
            if b is not None:
                a.add(b.path)
        BR = E0.BR
        for r in BR.v.values():
            for nm in ("place", "init", "extend", "find_base", "sanitise", "nfa_fn"):
                b = getattr(r, nm, None)
                if b is not None:
                    a.add(b.path)
    cli_c = crates.get("daacfind")
    if cli_c is not None:
        c = anchors["daacfind"]
        for p, b in cli_c.bodies.items():
            j = b.j
            if j["kind"] not in ("AssocFn", "Fn"):
                continue
            if j.get("impl_trait") is not None or j["name"] in ("main", "find_and_output"):
                c.add(p)
    return anchors


def normalise(crates):
    """rules run on the normal form in which non-anchor crate-local helpers are inlined (core.normalise_crate)"""
    anchors = anchors_of(crates)
    for name, crate in crates.items():
        core.normalise_crate(crate, anchors.get(name, set()))
    return crates


def main(argv):
    if not argv:
        print(__doc__)
        return 2
    # a check must never hang: normal run time is seconds; give up loudly after 20 minutes (exit 3, no VIOLATION line)
    try:
        import signal

        def _timeout(signum, frame):
            print("CHECK-TIMEOUT: the analysis did not finish within 1200 s; this is a defect of the checker, not a verdict on /repo",
                  file=sys.stderr)
            os._exit(3)
        signal.signal(signal.SIGALRM, _timeout)
        signal.alarm(1200)
    except Exception:
        pass
    prop = argv[0]
    tier = os.environ.get("VERIF_TIER", "quick")
    facts_dir = None
    replay = None
    i = 1
    while i < len(argv):
        if argv[i] == "--tier":
            tier = argv[i + 1]
            i += 2
        elif argv[i] == "--facts":
            facts_dir = argv[i + 1]
            i += 2
        elif argv[i] == "--replay":
            replay = argv[i + 1]
            i += 2
        else:
            i += 1
    if prop not in PROPS:
        print("unknown property", prop)
        return 2
    if tier == "thorough":
        # the thorough tier also replays the self-test corpora (hundreds of scratch extractions): a longer leash, same principle
        try:
            signal.alarm(3 * 3600)
        except Exception:
            pass
    seed = int(os.environ.get("VERIF_SEED", "0") or 0)
    fn, need_ws, expl = PROPS[prop]
    t0 = time.time()
    crates = core.load_dir(facts_dir) if facts_dir else core.extract(workspace=need_ws)
    normalise(crates)
    ctx = engine.Ctx(prop, crates, tier)
    R = roles_mod.Roles(ctx)
    fn(ctx, R)
    if tier == "thorough" and not facts_dir and not replay:
        from . import thorough
        thorough.second_config(ctx, prop, fn, need_ws)
        thorough.witnesses(ctx, prop)
        thorough.selftest(ctx, prop)
    if replay:
        with open(replay) as f:
            want = json.load(f)
        hits = [o for o in ctx.obl if o["key"] == want.get("key")]
        for o in hits:
            print(json.dumps(o, indent=1, default=str))
        bad = [o for o in hits if o["status"] == "violation"]
        if bad:
            print("VIOLATION property=%s replay=%s" % (prop, replay))
            return 1
        print("replay: obligation %s is %s on the current tree" % (want.get("key"), "discharged" if hits else "absent"))
        return 0
    try:
        with open(os.path.join(core.VERIF, "MANIFEST.json")) as f:
            for c in json.load(f)["checks"]:
                if c["property_id"] == prop:
                    expl = "%s | rule groups run: %s | %s | %s" % (c["level_claimed"]["text"], expl, c["level_note"],
                                                                  "deciding step: queries over facts extracted from /repo's current working tree by "
                                                                  "`cargo +nightly check` with the rustc_private driver (no code of /repo is executed)")
    except Exception:
        pass
    return engine.finish(ctx, t0, expl, ASSUME, TRUSTED, seed=seed)
