"""Facts loader, CFG utilities and provenance terms (P1/P2/P3 of DESIGN.md) over the JSON facts
emitted by /verif/driver.  Python 3 stdlib only.  Nothing here runs code of the analysed crate."""
import json
import os
import re
import shutil
import subprocess
import sys
import tempfile

VERIF = os.path.dirname(os.path.dirname(os.path.abspath(__file__)))
REPO = os.environ.get("DAAC_REPO", "/repo")
DRIVER = os.path.join(VERIF, "driver", "target", "release", "daac-facts")


# ----------------------------------------------------------------------------- extraction

def nightly_sysroot():
    return subprocess.check_output(["rustc", "+nightly", "--print", "sysroot"], text=True).strip()


def extract(repo=REPO, workspace=False, extra_rustflags="", keep=None):
    """Run `cargo +nightly check` on `repo` with the fact driver as workspace wrapper, in a fresh
    target dir outside repo and /verif.  Returns {crate_name: Crate}.  Fails closed."""
    if not os.path.exists(DRIVER):
        raise SystemExit("driver not built: run ./setup.sh")
    tmp = tempfile.mkdtemp(prefix="daacfacts-")
    facts = os.path.join(tmp, "facts")
    os.makedirs(facts)
    env = dict(os.environ)
    env["LD_LIBRARY_PATH"] = nightly_sysroot() + "/lib:" + env.get("LD_LIBRARY_PATH", "")
    env["RUSTFLAGS"] = ("-Zmir-opt-level=0 -Awarnings " + extra_rustflags).strip()
    env["RUSTC_WORKSPACE_WRAPPER"] = DRIVER
    env["CARGO_TARGET_DIR"] = os.path.join(tmp, "target")
    env["DAAC_FACTS_DIR"] = facts
    env["CARGO_NET_OFFLINE"] = "true"
    env.pop("RUSTC_WRAPPER", None)
    cmd = ["cargo", "+nightly", "check", "--offline", "-q"]
    cmd += ["--workspace"] if workspace else ["-p", "daachorse"]
    try:
        p = subprocess.run(cmd, cwd=repo, env=env, capture_output=True, text=True)
        if p.returncode != 0:
            sys.stderr.write(p.stderr[-4000:])
            raise SystemExit("fact extraction failed: cargo check returned %d" % p.returncode)
        crates = {}
        for fn in sorted(os.listdir(facts)):
            with open(os.path.join(facts, fn)) as f:
                j = json.load(f)
            crates[j["crate"]] = Crate(j)
        want = {"daachorse", "daacfind"} if workspace else {"daachorse"}
        missing = want - set(crates)
        if missing:
            raise SystemExit("fact extraction failed: no fact file for %s" % sorted(missing))
        if keep:
            shutil.copytree(facts, keep, dirs_exist_ok=True)
        return crates
    finally:
        shutil.rmtree(tmp, ignore_errors=True)


def load_dir(d):
    crates = {}
    for fn in sorted(os.listdir(d)):
        if fn.endswith(".json"):
            with open(os.path.join(d, fn)) as f:
                j = json.load(f)
            crates[j["crate"]] = Crate(j)
    return crates


# ----------------------------------------------------------------------------- helpers

def strip_generics(s):
    """remove `::<...>` and `<...>` generic argument lists from a def path (bracket matched),
    but keep a leading `<T as Trait>` qualified-self form."""
    out = []
    depth = 0
    i = 0
    n = len(s)
    lead = s.startswith("<")
    while i < n:
        c = s[i]
        if lead:
            # copy the qualified self verbatim up to its matching '>'
            d = 0
            j = i
            while j < n:
                if s[j] == "<":
                    d += 1
                elif s[j] == ">" and s[j - 1] != "-":
                    d -= 1
                    if d == 0:
                        break
                j += 1
            out.append(s[i:j + 1])
            i = j + 1
            lead = False
            continue
        if c == "<":
            if depth == 0 and out and "".join(out).endswith("::"):
                # drop the trailing '::'
                joined = "".join(out)[:-2]
                out = [joined]
            depth += 1
        elif c == ">" and (i == 0 or s[i - 1] != "-"):
            depth -= 1
        elif depth == 0:
            out.append(c)
        i += 1
    return "".join(out)


CORE_MODS = ("iter", "option", "result", "ops", "convert", "num", "slice", "str", "cmp", "clone", "marker", "mem",
             "cell", "default", "borrow", "hash", "char", "hint", "panicking", "array", "ptr", "any", "primitive")
ALLOC_MODS = ("vec", "string", "collections", "boxed", "rc", "sync", "alloc")


def canon(p):
    """def paths are printed through whatever re-export is visible in the analysed crate (`std::iter::…` in a
    std crate, `core::iter::…` in a no_std one); map the std facade back to the defining crate"""
    if not isinstance(p, str):
        return p
    lead = ""
    q = p
    if q.startswith("<"):
        return p.replace("<std::", "<core::").replace(" as std::", " as core::") if "std::" in p else p
    if q.startswith("std::"):
        rest = q[5:]
        mod = rest.split("::", 1)[0]
        if mod in CORE_MODS:
            return "core::" + rest
        if mod in ALLOC_MODS:
            return "alloc::" + rest
        if mod == "fmt":
            return "core::" + rest
    return p


class Callee:
    def __init__(self, fj):
        self.j = fj
        self.name = fj["name"]
        self.path = canon(fj["path"])
        self.krate = fj["krate"]
        self.local = fj["local"]
        self.unsafe = fj.get("unsafe", False)
        self.trait = canon(fj.get("trait") or fj.get("impl_trait"))
        self.adt = canon(fj.get("resolved_adt") or fj.get("impl_adt"))
        self.self_ty = fj.get("resolved_self_ty") or fj.get("impl_self_ty")
        self.resolved = fj.get("resolved")
        self.resolved_local = fj.get("resolved_local", False)
        self.targs = fj.get("targs", [])
        self.full = fj.get("full", "")

    @property
    def body_path(self):
        """def path under which a local body would be registered"""
        if self.resolved and self.resolved_local:
            return self.resolved
        if self.local:
            return self.path
        return None

    @property
    def key(self):
        if self.trait:
            k = "%s::%s" % (self.trait, self.name)
            if self.adt:
                k += "@" + self.adt
            elif self.self_ty and not self.resolved:
                pass
            return k
        if self.adt:
            return "%s::%s" % (self.adt, self.name)
        return strip_generics(self.path)

    def targ_s(self, i):
        return self.targs[i]["s"] if i < len(self.targs) else None


class Crate:
    def __init__(self, j):
        self.j = j
        self.name = j["crate"]
        self.adts = {a["path"]: a for a in j["adts"]}
        self.fns = {f["path"]: f for f in j["fns"]}
        self.consts = {c["path"]: c for c in j["consts"]}
        self.impls = j["impls"]
        self.bodies = {}
        for b in j["bodies"]:
            self.bodies[b["path"]] = Body(self, b)
        self.closures_of = {}
        for b in self.bodies.values():
            if b.j["kind"] == "Closure":
                self.closures_of.setdefault(b.j["closure_parent"], []).append(b)
        self._field_writes = None

    # ---- lookups by role -------------------------------------------------------
    def body(self, path):
        return self.bodies.get(path)

    def owner_of(self, b):
        """the function a closure body belongs to: the body that creates it (after inlining that may be a caller of the helper
        that defined it), else its lexical parent; never loops when the parent was inlined away"""
        seen = set()
        while b.is_closure and b.path not in seen:
            seen.add(b.path)
            nb = None
            for pth, cbs in getattr(self, "closures_of", {}).items():
                if any(cb is b for cb in cbs) and pth in self.bodies:
                    nb = self.bodies[pth]
                    break
            if nb is None:
                par = b.j.get("closure_parent")
                nb = self.bodies.get(par) or getattr(self, "helper_bodies", {}).get(par)
            if nb is None or nb is b:
                break
            b = nb
        return b

    def find_bodies(self, adt=None, trait=None, name=None, closures=False):
        out = []
        for b in self.bodies.values():
            if not closures and b.is_closure:
                continue
            if adt is not None and b.j.get("impl_adt") != adt:
                continue
            if trait is not None and b.j.get("impl_trait") != trait:
                continue
            if trait is None and adt is not None and b.j.get("impl_trait") is not None and name is not None:
                # inherent lookup must not pick trait impl methods of the same name
                continue
            if name is not None and b.name != name:
                continue
            out.append(b)
        return out

    def one_body(self, adt=None, trait=None, name=None):
        r = self.find_bodies(adt=adt, trait=trait, name=name)
        return r[0] if len(r) == 1 else None

    def with_closures(self, body):
        """body plus (transitively) the closures defined inside it"""
        out = [body]
        work = [body]
        while work:
            b = work.pop()
            for c in self.closures_of.get(b.path, []):
                out.append(c)
                work.append(c)
        return out

    def adt_field(self, adt, name):
        a = self.adts.get(adt)
        if not a:
            return None
        for v in a["variants"]:
            for f in v["fields"]:
                if f["name"] == name:
                    return f
        return None

    def impls_of(self, trait, adt_or_ty=None):
        out = []
        for i in self.impls:
            if i["trait"] != trait:
                continue
            if adt_or_ty is not None:
                tj = i["self_tyj"]
                if not (tj.get("path") == adt_or_ty or i["self_ty"] == adt_or_ty):
                    continue
            out.append(i)
        return out

    # ---- who writes a field ----------------------------------------------------
    def field_writes(self):
        """{(adt, field): [(body, bb, kind, payload)]}: assignments, struct literals and
        `&mut place.field` borrows (kind 'assign' | 'literal' | 'mutborrow')"""
        if self._field_writes is not None:
            return self._field_writes
        fw = {}
        for b in self.bodies.values():
            for bi, blk in enumerate(b.blocks):
                for si, st in enumerate(blk["stmts"]):
                    if st["k"] != "assign":
                        continue
                    lhs = st["lhs"]
                    fp = last_field(lhs)
                    if fp is not None:
                        fw.setdefault((fp["adt"], fp["name"]), []).append((b, bi, "assign", st))
                    rv = st["rv"]
                    if rv["k"] == "aggregate" and rv.get("akind") == "adt":
                        for fname, op in zip(rv["fields"], rv["ops"]):
                            fw.setdefault((rv["adt"], fname), []).append((b, bi, "literal", (st, op)))
                    if rv["k"] == "ref" and rv["mut"]:
                        fp = last_field(rv["place"])
                        if fp is not None:
                            fw.setdefault((fp["adt"], fp["name"]), []).append((b, bi, "mutborrow", st))
        self._field_writes = fw
        return fw


def last_field(place):
    """the last projection if it is a named ADT field (ignoring trailing derefs is NOT done:
    a write to (*x.f) is a write through f, not to f)"""
    pr = place["proj"]
    if pr and pr[-1]["k"] == "field" and not pr[-1]["adt"].startswith("("):
        return pr[-1]
    return None


# ----------------------------------------------------------------------------- bodies / CFG

class Body:
    def __init__(self, crate, j):
        self.crate = crate
        self.j = j
        self.path = j["path"]
        self.name = j["name"]
        self.blocks = j["blocks"]
        self.locals = j["locals"]
        self.arg_count = j["arg_count"]
        self.is_closure = j["kind"] == "Closure"
        self.span = j["span"]
        self.local_names = {}
        self.upvar_names = {}
        for d in j["debug"]:
            at = d["at"]
            if "local" in at:
                if not at["proj"]:
                    self.local_names.setdefault(at["local"], d["name"])
                elif at["local"] == 1 and self.is_closure:
                    for pe in at["proj"]:
                        if pe["k"] == "field":
                            self.upvar_names[pe["idx"]] = d["name"]
                            break
        self._succ = None
        self._pred = None
        self._dom = None
        self._defs = None
        self._reach_cache = {}

    def __repr__(self):
        return "Body(%s)" % self.path

    @property
    def key(self):
        return strip_generics(self.path)

    # ---- CFG (normal edges only; cleanup blocks and unwinds dropped; const switches folded)
    def succ(self, bi):
        if self._succ is None:
            self._build_cfg()
        return self._succ[bi]

    def pred(self, bi):
        if self._succ is None:
            self._build_cfg()
        return self._pred[bi]

    def _build_cfg(self):
        n = len(self.blocks)
        succ = [[] for _ in range(n)]
        for bi, blk in enumerate(self.blocks):
            if blk["cleanup"]:
                continue
            t = blk["term"]
            k = t["k"]
            if k == "goto":
                succ[bi] = [t["target"]]
            elif k == "switch":
                d = t["discr"]
                if d["k"] == "const" and "bits" in d:
                    taken = t["otherwise"]
                    for v, b in t["targets"]:
                        if v == d["bits"]:
                            taken = b
                    succ[bi] = [taken]
                else:
                    s = [b for _, b in t["targets"]] + [t["otherwise"]]
                    succ[bi] = list(dict.fromkeys(s))
            elif k in ("call",):
                succ[bi] = [t["target"]] if t["target"] is not None else []
            elif k in ("drop", "assert"):
                succ[bi] = [t["target"]]
            else:
                succ[bi] = []
        # drop edges into blocks that are `unreachable`
        for bi in range(n):
            succ[bi] = [s for s in succ[bi] if self.blocks[s]["term"]["k"] != "unreachable"]
        pred = [[] for _ in range(n)]
        for bi in range(n):
            for s in succ[bi]:
                pred[s].append(bi)
        self._succ = succ
        self._pred = pred

    def reachable_from(self, src, avoid=()):
        """set of blocks reachable from src (inclusive) not entering `avoid` blocks"""
        key = (src, frozenset(avoid))
        if key in self._reach_cache:
            return self._reach_cache[key]
        avoid = set(avoid)
        seen = set()
        if src in avoid:
            self._reach_cache[key] = seen
            return seen
        work = [src]
        seen.add(src)
        while work:
            b = work.pop()
            for s in self.succ(b):
                if s not in seen and s not in avoid:
                    seen.add(s)
                    work.append(s)
        self._reach_cache[key] = seen
        return seen

    def reaches(self, a, b, avoid=()):
        """is there a path a ->+ b (at least one edge) avoiding blocks in `avoid`"""
        for s in self.succ(a):
            if s in avoid:
                continue
            if b in self.reachable_from(s, avoid):
                return True
        return False

    def live_blocks(self):
        return self.reachable_from(0)

    def reachable_avoiding_edges(self, src, avoid_edges):
        """blocks reachable from src when the CFG edges in avoid_edges {(a,b)} are removed"""
        avoid_edges = set(avoid_edges)
        seen = {src}
        work = [src]
        while work:
            b = work.pop()
            for s in self.succ(b):
                if (b, s) in avoid_edges or s in seen:
                    continue
                seen.add(s)
                work.append(s)
        return seen

    def reach(self, src, avoid_blocks=(), avoid_edges=()):
        avoid_blocks = set(avoid_blocks)
        avoid_edges = set(avoid_edges)
        if src in avoid_blocks:
            return set()
        seen = {src}
        work = [src]
        while work:
            b = work.pop()
            for s in self.succ(b):
                if (b, s) in avoid_edges or s in seen or s in avoid_blocks:
                    continue
                seen.add(s)
                work.append(s)
        return seen

    def edge_guards(self, edge, blk):
        """every path from entry to blk uses CFG edge `edge`"""
        return blk not in self.reachable_avoiding_edges(0, [edge])

    def block_guards(self, g, blk):
        """every path from entry to blk passes through block g (g dominates blk)"""
        return self.dominates(g, blk)

    def dominators(self):
        if self._dom is not None:
            return self._dom
        live = sorted(self.live_blocks())
        allb = set(live)
        dom = {b: set(allb) for b in live}
        dom[0] = {0}
        changed = True
        while changed:
            changed = False
            for b in live:
                if b == 0:
                    continue
                ps = [p for p in self.pred(b) if p in allb]
                if not ps:
                    continue
                new = set.intersection(*[dom[p] for p in ps]) | {b}
                if new != dom[b]:
                    dom[b] = new
                    changed = True
        self._dom = dom
        return dom

    def dominates(self, a, b):
        return a in self.dominators().get(b, set())

    def return_blocks(self):
        return [bi for bi in self.live_blocks() if self.blocks[bi]["term"]["k"] == "return"]

    def in_cycle(self, bi):
        return self.reaches(bi, bi)

    def sccs(self):
        """non-trivial strongly connected components of the live CFG"""
        live = self.live_blocks()
        index = {}
        low = {}
        stack = []
        on = set()
        out = []
        counter = [0]
        sys.setrecursionlimit(10000)

        def strong(v):
            index[v] = low[v] = counter[0]
            counter[0] += 1
            stack.append(v)
            on.add(v)
            for w in self.succ(v):
                if w not in live:
                    continue
                if w not in index:
                    strong(w)
                    low[v] = min(low[v], low[w])
                elif w in on:
                    low[v] = min(low[v], index[w])
            if low[v] == index[v]:
                comp = []
                while True:
                    w = stack.pop()
                    on.discard(w)
                    comp.append(w)
                    if w == v:
                        break
                if len(comp) > 1 or v in self.succ(v):
                    out.append(set(comp))

        for v in sorted(live):
            if v not in index:
                strong(v)
        return out

    # ---- sites -----------------------------------------------------------------
    def calls(self, live_only=True):
        """[(bb, Callee, term_json)] for direct calls"""
        out = []
        live = self.live_blocks() if live_only else range(len(self.blocks))
        for bi in sorted(live):
            t = self.blocks[bi]["term"]
            if t["k"] == "call" and t["func"]["k"] == "const" and "fn" in t["func"]:
                out.append((bi, Callee(t["func"]["fn"]), t))
        return out

    def indirect_calls(self):
        out = []
        for bi in sorted(self.live_blocks()):
            t = self.blocks[bi]["term"]
            if t["k"] == "call" and not (t["func"]["k"] == "const" and "fn" in t["func"]):
                out.append((bi, t))
        return out

    def stmts(self, live_only=True):
        live = self.live_blocks() if live_only else range(len(self.blocks))
        for bi in sorted(live):
            for si, st in enumerate(self.blocks[bi]["stmts"]):
                yield bi, si, st

    def loc(self, bi, si=None):
        blk = self.blocks[bi]
        if si is not None and si < len(blk["stmts"]):
            return blk["stmts"][si]["span"]
        return blk["term"]["span"]

    # ---- definitions of locals ---------------------------------------------------
    def defs(self):
        """{local: [def]} where def = ('rv', bb, si, rvalue) | ('call', bb) | ('mutby', bb, argidx)
        | ('partial', bb, si, proj, rvalue)"""
        if self._defs is not None:
            return self._defs
        defs = {}
        live = self.live_blocks()
        # locals holding `&mut L` (direct borrow of a whole local): r -> L
        mutref = {}
        for bi, si, st in self.stmts():
            if st["k"] != "assign":
                continue
            lhs = st["lhs"]
            rv = st["rv"]
            if not lhs["proj"]:
                defs.setdefault(lhs["local"], []).append(("rv", bi, si, rv))
                if rv["k"] == "ref" and rv["mut"] and not rv["place"]["proj"]:
                    mutref[lhs["local"]] = rv["place"]["local"]
            elif not any(p["k"] == "deref" for p in lhs["proj"]):
                defs.setdefault(lhs["local"], []).append(("partial", bi, si, lhs["proj"], rv))
        # re-borrows and moves of a `&mut L` reference still denote L
        changed = True
        while changed:
            changed = False
            for bi, si, st in self.stmts():
                if st["k"] != "assign" or st["lhs"]["proj"]:
                    continue
                rv = st["rv"]
                tgt = st["lhs"]["local"]
                if tgt in mutref:
                    continue
                src = None
                if rv["k"] == "ref" and rv["mut"] and len(rv["place"]["proj"]) == 1 and rv["place"]["proj"][0]["k"] == "deref":
                    src = rv["place"]["local"]
                elif rv["k"] == "use" and rv["op"]["k"] in ("move", "copy") and not rv["op"]["place"]["proj"]:
                    src = rv["op"]["place"]["local"]
                elif rv["k"] == "cast" and str(rv.get("kind", "")).startswith("PointerCoercion") and rv["op"]["k"] in ("move", "copy") \
                        and not rv["op"]["place"]["proj"]:
                    src = rv["op"]["place"]["local"]          # `&mut [u8; N]` unsized to `&mut [u8]` still denotes the array
                if src is not None and src in mutref and self.locals[tgt]["tyj"].get("k") == "ref" and self.locals[tgt]["tyj"].get("mut"):
                    mutref[tgt] = mutref[src]
                    changed = True
        # a write through a reference that is known to be `&mut L` (`*r = v`, `*r = f(..)`) is a definition of L
        for bi, si, st in self.stmts():
            if st["k"] == "assign":
                lhs = st["lhs"]
                if len(lhs["proj"]) == 1 and lhs["proj"][0]["k"] == "deref" and lhs["local"] in mutref:
                    defs.setdefault(mutref[lhs["local"]], []).append(("rv", bi, si, st["rv"]))
        for bi in sorted(live):
            t = self.blocks[bi]["term"]
            if t["k"] == "call":
                d = t["dest"]
                if len(d["proj"]) == 1 and d["proj"][0]["k"] == "deref" and d["local"] in mutref:
                    defs.setdefault(mutref[d["local"]], []).append(("call", bi))
                if not d["proj"]:
                    defs.setdefault(d["local"], []).append(("call", bi))
                for ai, a in enumerate(t["args"]):
                    if a["k"] in ("move", "copy") and not a["place"]["proj"]:
                        r = a["place"]["local"]
                        if r in mutref:
                            defs.setdefault(mutref[r], []).append(("mutby", bi, ai))
        self._defs = defs
        return defs


# ----------------------------------------------------------------------------- terms (P1)
#
# term := ('const', value, ty, defname|None) | ('fn', path) | ('param', idx, name)
#       | ('field', base, adt, name) | ('variant', base, name) | ('elem', base, idx)
#       | ('call', key, args, site) | ('mutby', key, args, argidx, site)
#       | ('bin', op, a, b) | ('ovf', op, a, b) | ('un', op, a) | ('cast', a, from, to)
#       | ('agg', adt, variant, ((fname, term),...)) | ('tuple', (terms)) | ('array', (terms))
#       | ('closure', path, (terms)) | ('discr', a) | ('phi', frozenset) | ('loop', local)
#       | ('rawptr', a) | ('len', a) | ('repeat', a, n) | ('undef',) | ('unknown', text)
#   site = (body_path, bb)

OVF = {"AddWithOverflow": "Add", "SubWithOverflow": "Sub", "MulWithOverflow": "Mul"}
UNCHECKED = {"AddUnchecked": "Add", "SubUnchecked": "Sub", "MulUnchecked": "Mul",
             "ShlUnchecked": "Shl", "ShrUnchecked": "Shr"}


def mk_phi(ts):
    flat = set()
    for t in ts:
        if t[0] == "phi":
            flat |= t[1]
        else:
            flat.add(t)
    if len(flat) > 1:
        flat.discard(("undef",))
    if len(flat) == 1:
        return next(iter(flat))
    if not flat:
        return ("undef",)
    return ("phi", frozenset(flat))


class Terms:
    """Backward def-use slicing for one body.  Flow-insensitive per local (all definitions of a
    local are joined); loop-carried dependence is cut with ('loop', local)."""

    CONTAINERS = ("alloc::vec::Vec", "build_helper::BuildHelper", "alloc::collections::BTreeMap",
                  "alloc::collections::BTreeSet", "alloc::string::String", "alloc::collections::VecDeque")

    def is_container_var(self, l):
        """a user-named local holding a growable collection / the build helper: its value is the
        result of a history of mutations, so it is kept symbolic as ('var', name, local); the
        mutations are queried with container_defs()"""
        if l not in self.b.local_names or l <= self.b.arg_count:
            return False
        tj = self.b.locals[l]["tyj"]
        if tj["k"] != "adt":
            return False
        # a collection / crate-local struct that is mutated in place through &mut calls
        if canon(tj["path"]) in self.CONTAINERS or tj.get("krate") == self.b.crate.name:
            for d in self.b.defs().get(l, []):
                if d[0] == "mutby":
                    t = self.b.blocks[d[1]]["term"]
                    if "fn" in t["func"] and callee_base(Callee(t["func"]["fn"]).key) in ADVANCE_KEYS:
                        continue
                    return True
        return False

    def container_defs(self, l):
        """[(kind, term, bb)] definitions/mutations of a container local"""
        out = []
        for d in self.b.defs().get(l, []):
            out.append((d[0], self.of_def(d, (l,)), d[1]))
        return out

    def __init__(self, body, bind=None, upvars=None, max_depth=60):
        self.b = body
        self.bind = bind or {}        # param local -> term (for closures evaluated in context)
        self.upvars = upvars          # tuple of terms for closure env fields
        self.memo = {}
        self.max_depth = max_depth

    # -- locals
    def local(self, l, stack=()):
        if l in self.memo:
            return self.memo[l]
        if self.is_container_var(l):
            return ("var", self.b.local_names[l], l)
        if l in stack:
            return ("loop", l)
        if len(stack) > self.max_depth:
            return ("unknown", "depth")
        st = stack + (l,)
        ts = []
        if 1 <= l <= self.b.arg_count:
            if l in self.bind:
                ts.append(self.bind[l])
            elif l == 1 and self.b.is_closure and self.upvars is not None:
                ts.append(("closure", self.b.path, self.upvars))
            else:
                ts.append(("param", l, self.b.local_names.get(l, "_%d" % l)))
        is_param = 1 <= l <= self.b.arg_count
        for d in self.b.defs().get(l, []):
            if is_param and d[0] == "mutby":
                continue      # a by-value parameter mutated through &mut calls keeps its name
            ts.append(self.of_def(d, st))
        t = mk_phi(ts)
        # context-free memoisation only: a term containing a loop marker depends on where the
        # cycle was entered, so it is recomputed (bodies are small); this keeps the unrolling
        # depth of every cycle at exactly one regardless of evaluation order
        if not contains_loop(t):
            self.memo[l] = t
        return t

    def of_def(self, d, st):
        k = d[0]
        if k == "rv":
            return self.rvalue(d[3], st)
        if k == "call":
            return self.call_term(d[1], st)
        if k == "mutby":
            bi, ai = d[1], d[2]
            t = self.b.blocks[bi]["term"]
            c = Callee(t["func"]["fn"]) if "fn" in t["func"] else None
            args = tuple(self.operand(a, st) if i != ai else ("selfref",)
                         for i, a in enumerate(t["args"]))
            return ("mutby", c.key if c else "?", args, ai, (self.b.path, bi))
        if k == "partial":
            return ("partial", tuple(p.get("name", p["k"]) for p in d[3]), self.rvalue(d[4], st))
        return ("unknown", str(k))

    def call_term(self, bi, st=()):
        t = self.b.blocks[bi]["term"]
        f = t["func"]
        if f["k"] == "const" and "fn" in f:
            key = Callee(f["fn"]).key
        else:
            key = ("indirect", self.operand(f, st))
        args = tuple(self.operand(a, st) for a in t["args"])
        return ("call", key, args, (self.b.path, bi))

    # -- places / operands / rvalues
    def place(self, p, st=()):
        t = self.local(p["local"], st)
        for pe in p["proj"]:
            t = self.project(t, pe, st)
        return t

    def project(self, t, pe, st):
        k = pe["k"]
        if k == "deref":
            return t
        if k == "field":
            return field_of(t, canon(pe["adt"]), pe["name"])
        if k == "downcast":
            return variant_of(t, pe["name"])
        if k == "index":
            return ("elem", t, self.local(pe["local"], st))
        if k == "constindex":
            return ("elem", t, ("const", pe["offset"], "usize", None))
        if k == "subslice":
            return ("subslice", t, pe["from"], pe["to"], pe["from_end"])
        return ("unknown", "proj:" + k)

    def operand(self, op, st=()):
        k = op["k"]
        if k in ("copy", "move"):
            return self.place(op["place"], st)
        if k == "const":
            if "fn" in op:
                return ("fn", Callee(op["fn"]).key)
            if "bits" in op:
                v = op.get("sval", op["bits"])
                return ("const", v, op["ty"], op.get("def"))
            if op.get("promoted"):
                pb = self.b.crate.bodies.get(op["text"])
                if pb is not None and pb.j["kind"] == "Promoted":
                    return Terms(pb).local(0)
            return ("const", op["text"], op["ty"], op.get("def"))
        return ("unknown", "op")

    def rvalue(self, rv, st=()):
        k = rv["k"]
        if k == "use":
            return self.operand(rv["op"], st)
        if k == "ref":
            return self.place(rv["place"], st)
        if k == "rawptr":
            if rv.get("kind") == "FakeForPtrMetadata":
                return self.place(rv["place"], st)
            return ("rawptr", self.place(rv["place"], st))
        if k == "cast":
            x = self.operand(rv["op"], st)
            kind = rv["kind"]
            if kind.startswith("IntToInt") or kind.startswith("FloatToInt") or kind.startswith("IntToFloat"):
                return ("cast", x, rv["from_ty"], rv["ty"])
            if kind.startswith("Transmute"):
                return ("transmute", x, rv["from_ty"], rv["ty"])
            if kind.startswith("PointerCoercion") or kind.startswith("PtrToPtr"):
                return x
            return ("castk", kind, x, rv["from_ty"], rv["ty"])
        if k == "binop":
            op = rv["op"]
            a = self.operand(rv["l"], st)
            b = self.operand(rv["r"], st)
            if op in OVF:
                return ("ovf", OVF[op], a, b)
            op = UNCHECKED.get(op, op)
            return ("bin", op, a, b)
        if k == "unop":
            if rv["op"] == "PtrMetadata":
                return ("len", self.operand(rv["x"], st))
            return ("un", rv["op"], self.operand(rv["x"], st))
        if k == "discr":
            return ("discr", self.place(rv["place"], st))
        if k == "aggregate":
            ak = rv["akind"]
            ops = tuple(self.operand(o, st) for o in rv["ops"])
            if ak == "adt":
                return ("agg", canon(rv["adt"]), rv["variant"], tuple(zip(rv["fields"], ops)))
            if ak == "tuple":
                return ("tuple", ops)
            if ak == "array":
                return ("array", ops)
            if ak == "closure":
                return ("closure", rv["closure"], ops)
            return ("unknown", "agg")
        if k == "repeat":
            return ("repeat", self.operand(rv["op"], st), rv["n"])
        return ("unknown", "rv:" + rv.get("s", k)[:40])


def contains_loop(t):
    return any(x[0] == "loop" for x in walk(t))


def walk(t):
    """all sub-terms (pre-order)"""
    stack = [t]
    while stack:
        x = stack.pop()
        if not isinstance(x, tuple) or not x or not isinstance(x[0], str):
            continue
        yield x
        k = x[0]
        if k in ("const", "param", "loop", "fn", "undef", "unknown", "selfref", "var"):
            continue
        if k in ("call", "mutby"):
            if isinstance(x[1], tuple):
                stack.append(x[1][1])
            stack.extend(x[2])
        elif k == "agg":
            stack.extend(v for _, v in x[3])
        elif k == "closure":
            stack.extend(x[2])
        elif k == "partial":
            stack.append(x[2])
        else:
            for y in x[1:]:
                if isinstance(y, frozenset):
                    stack.extend(y)
                elif isinstance(y, tuple):
                    if y and isinstance(y[0], str):
                        stack.append(y)
                    else:
                        stack.extend(z for z in y if isinstance(z, tuple))


def unloop(t):
    """replace every ('loop', local) marker by ('loop', 0): terms built from different roots cut
    the same cycle at different locals; comparisons between such terms are made modulo that"""
    if not isinstance(t, tuple):
        return t
    if t and t[0] == "loop":
        return ("loop", 0)
    out = []
    for y in t:
        if isinstance(y, frozenset):
            out.append(frozenset(unloop(z) for z in y))
        elif isinstance(y, tuple):
            out.append(unloop(y))
        else:
            out.append(y)
    return tuple(out)


def same(a, b):
    return unloop(a) == unloop(b)


def field_of(t, adt, name):
    k = t[0]
    if k == "agg" and t[1] == adt:
        for fn, v in t[3]:
            if fn == name:
                return v
    if k == "tuple" and adt == "(tuple)":
        i = int(name)
        if i < len(t[1]):
            return t[1][i]
    if k == "ovf" and adt == "(tuple)":
        if name == "0":
            return ("bin", t[1], t[2], t[3])
        return ("ovfflag", t[1], t[2], t[3])
    if k == "closure" and adt.startswith("(closure)"):
        i = int(name)
        if i < len(t[2]):
            return t[2][i]
    if k == "phi":
        return mk_phi([field_of(x, adt, name) for x in t[1]])
    return ("field", t, adt, name)


def variant_of(t, name):
    k = t[0]
    if k == "agg" and t[2] == name:
        return t
    if k == "phi":
        keep = [x for x in t[1] if not (x[0] == "agg" and x[2] != name)]
        return mk_phi([variant_of(x, name) for x in keep]) if keep else ("undef",)
    return ("variant", t, name)


# ----------------------------------------------------------------------------- normalisation

# callees that are value-transparent for provenance purposes (payload passes through)
IDENTITY_KEYS = {
    "utils::FromU32::from_u32",
    "core::convert::From::from", "core::convert::Into::into",
    "core::num::NonZero::get",
    "core::ops::Deref::deref@alloc::vec::Vec", "core::ops::DerefMut::deref_mut@alloc::vec::Vec",
    "core::ops::Deref::deref", "core::ops::DerefMut::deref_mut",
    "core::ops::Deref::deref@core::cell::Ref", "core::ops::DerefMut::deref_mut@core::cell::RefMut",
    "core::ops::Deref::deref@core::cell::RefMut",
    "core::cell::RefCell::borrow", "core::cell::RefCell::borrow_mut", "core::cell::RefCell::get_mut",
    "core::convert::AsRef::as_ref", "core::convert::AsRef::as_ref@alloc::vec::Vec",
    "core::convert::AsRef::as_ref@alloc::string::String",
    "core::iter::Iterator::by_ref", "core::iter::IntoIterator::into_iter",
    "core::clone::Clone::clone", "core::option::Option::copied", "core::option::Option::cloned",
    "core::borrow::Borrow::borrow", "core::borrow::BorrowMut::borrow_mut",
    "alloc::vec::Vec::as_slice", "alloc::vec::Vec::as_mut_slice",
    "core::str::as_bytes", "alloc::string::String::as_str", "alloc::string::String::as_bytes",
}


# `&mut x` passed to these does not redefine x for provenance purposes (an iterator stays "the
# iterator over its source" when advanced)
ADVANCE_KEYS = {"core::iter::Iterator::next", "core::iter::DoubleEndedIterator::next_back"}


# wrapping arithmetic is the same function as the checked operator wherever the checked operator does not panic
WRAPPING = {"core::num::wrapping_sub": "Sub", "core::num::wrapping_add": "Add", "core::num::wrapping_mul": "Mul"}


# Vec operations that can change neither the contents nor the order of the elements (capacity management, size queries)
NEUTRAL_VEC = {"alloc::vec::Vec::reserve", "alloc::vec::Vec::reserve_exact", "alloc::vec::Vec::shrink_to_fit", "alloc::vec::Vec::shrink_to",
               "alloc::vec::Vec::capacity", "alloc::vec::Vec::len", "alloc::vec::Vec::is_empty", "alloc::vec::Vec::try_reserve",
               "alloc::vec::Vec::try_reserve_exact"}


def callee_base(key):
    """key without the @adt qualifier"""
    return key.split("@")[0] if isinstance(key, str) else key


def norm(t, identity=IDENTITY_KEYS, _memo=None):
    """normalise: drop identity-like calls and widening casts, flatten phi, commutative ordering"""
    if _memo is None:
        _memo = {}
    if t in _memo:
        return _memo[t]
    r = _norm(t, identity, _memo)
    _memo[t] = r
    return r


WIDTH = {"u8": 8, "u16": 16, "u32": 32, "u64": 64, "u128": 128, "usize": 64,
         "i8": 8, "i16": 16, "i32": 32, "i64": 64, "i128": 128, "isize": 64, "char": 32, "bool": 1}
COMM = {"Add", "Mul", "BitXor", "BitOr", "BitAnd", "Eq", "Ne"}


def _norm(t, identity, memo):
    k = t[0]
    n = lambda x: norm(x, identity, memo)
    if k == "call":
        key = t[1]
        args = tuple(n(a) for a in t[2])
        if isinstance(key, str) and (key in identity or callee_base(key) in identity) and len(args) >= 1:
            return args[0]
        if isinstance(key, str) and callee_base(key) in WRAPPING and len(args) == 2:
            a, b = args
            op = WRAPPING[callee_base(key)]
            if op in COMM and repr(b) < repr(a):
                a, b = b, a
            return ("bin", op, a, b)
        return ("call", key if isinstance(key, str) else ("indirect", n(key[1])), args, t[3])
    if k == "mutby":
        return ("mutby", t[1], tuple(n(a) for a in t[2]), t[3], t[4])
    if k == "cast":
        x = n(t[1])
        fw, tw = WIDTH.get(t[2]), WIDTH.get(t[3])
        if fw and tw and tw >= fw and not (t[2].startswith("i") and t[3].startswith("u")):
            return x
        return ("cast", x, t[2], t[3])
    if k == "field":
        return field_of(n(t[1]), t[2], t[3])
    if k == "variant":
        return variant_of(n(t[1]), t[2])
    if k == "elem":
        return ("elem", n(t[1]), n(t[2]))
    if k in ("bin", "ovf"):
        a, b = n(t[2]), n(t[3])
        if t[1] in COMM and repr(b) < repr(a):
            a, b = b, a
        return (k, t[1], a, b)
    if k in ("un", "discr", "rawptr", "len"):
        return (k,) + tuple(n(x) if isinstance(x, tuple) else x for x in t[1:])
    if k == "agg":
        return ("agg", t[1], t[2], tuple((f, n(v)) for f, v in t[3]))
    if k in ("tuple", "array"):
        return (k, tuple(n(x) for x in t[1]))
    if k == "closure":
        return ("closure", t[1], tuple(n(x) for x in t[2]))
    if k == "phi":
        ms = [n(x) for x in t[1]]
        # a temporary that is only re-borrowed through an identity-like call (deref_mut, by_ref …)
        # is not redefined by it
        keep = [x for x in ms if not (x[0] == "mutby" and isinstance(x[1], str) and
                                     (x[1] in identity or callee_base(x[1]) in identity or callee_base(x[1]) in ADVANCE_KEYS))]
        return mk_phi(keep or ms)
    if k == "repeat":
        return ("repeat", n(t[1]), t[2])
    if k == "transmute":
        return ("transmute", n(t[1]), t[2], t[3])
    if k == "subslice":
        return ("subslice", n(t[1])) + t[2:]
    if k == "partial":
        return ("partial", t[1], n(t[2]))
    return t


def leaves(t):
    """leaf terms of a term (consts, params, loops, unknowns, undef) ignoring structure"""
    for x in walk(t):
        if x[0] in ("const", "param", "loop", "unknown", "undef", "fn", "selfref"):
            yield x


def show(t, depth=0):
    """compact human-readable rendering of a term"""
    if depth > 12:
        return "…"
    k = t[0]
    s = lambda x: show(x, depth + 1)
    if k == "const":
        return (t[3].split("::")[-1] + "=" if t[3] else "") + str(t[1])
    if k == "param":
        return "param:" + str(t[2])
    if k == "var":
        return "var:" + str(t[1])
    if k == "field":
        return "%s.%s" % (s(t[1]), t[3])
    if k == "variant":
        return "%s as %s" % (s(t[1]), t[2])
    if k == "elem":
        return "%s[%s]" % (s(t[1]), s(t[2]))
    if k == "call":
        key = t[1] if isinstance(t[1], str) else "indirect"
        return "%s(%s)@bb%d" % (key.split("::")[-1] if "@" not in key else key.split("::")[-1],
                                ", ".join(s(a) for a in t[2]), t[3][1])
    if k == "mutby":
        return "mutby:%s(%s)" % (t[1].split("::")[-1], ", ".join(s(a) for a in t[2]))
    if k in ("bin", "ovf"):
        return "(%s %s %s)" % (s(t[2]), t[1], s(t[3]))
    if k == "un":
        return "%s(%s)" % (t[1], s(t[2]))
    if k == "cast":
        return "(%s as %s)" % (s(t[1]), t[3])
    if k == "agg":
        return "%s::%s{%s}" % (t[1].split("::")[-1], t[2], ", ".join("%s: %s" % (f, s(v)) for f, v in t[3]))
    if k in ("tuple", "array"):
        return "(%s)" % ", ".join(s(x) for x in t[1])
    if k == "closure":
        return "closure[%s]" % ", ".join(s(x) for x in t[2])
    if k == "phi":
        return "phi{%s}" % " | ".join(sorted(s(x) for x in t[1]))
    if k == "loop":
        return "loop:_%d" % t[1]
    if k == "discr":
        return "discr(%s)" % s(t[1])
    if k == "len":
        return "len(%s)" % s(t[1])
    if k in ("payload", "some", "item", "elemof", "errpayload", "acc"):
        return "%s(%s)" % (k, s(t[1]))
    return str(t)[:80]


# ----------------------------------------------------------------------------- normal form: inline non-anchor helpers
#
# Extracting a few lines into a private helper (or inlining one) must not change any verdict.  Rules are therefore run on a
# normal form of every body in which calls to crate-local functions that are NOT anchors are spliced in (MIR inlining: locals
# and blocks renumbered, arguments assigned to the callee's parameter locals, `return` replaced by an assignment of the
# callee's _0 to the call's destination and a goto to the call's target).  Anchors are the functions the rules talk about:
# public API, trait-impl methods, methods of the small accessor types, and every function resolved as a role.

_REMAP = {}     # callee local -> caller local overrides of the splice in progress (return place -> destination local)


def _shift_place(p, lo, bo):
    q = dict(p)
    q["local"] = _REMAP.get(p["local"], p["local"] + lo)
    pr = []
    for pe in p["proj"]:
        if pe["k"] == "index":
            pe = dict(pe)
            pe["local"] = _REMAP.get(pe["local"], pe["local"] + lo)
        pr.append(pe)
    q["proj"] = pr
    return q


def _rename_local_json(x, src, dst):
    """deep copy of a MIR JSON fragment with every place on local `src` moved to local `dst`"""
    if isinstance(x, dict):
        y = {k: _rename_local_json(v, src, dst) for k, v in x.items()}
        if "local" in y and "proj" in y and y["local"] == src:
            y["local"] = dst
        elif x.get("k") == "index" and y.get("local") == src:
            y["local"] = dst
        return y
    if isinstance(x, list):
        return [_rename_local_json(v, src, dst) for v in x]
    return x


def _nrvo(fj):
    """named-return-value form: a body that builds its result in one local x and ends with `_0 = move x` writes to the
    return place directly (so that, once spliced, the caller's destination IS the container the callee filled)"""
    cand = None
    n = 0
    for b in fj["blocks"]:
        if b["cleanup"]:
            continue
        for st in b["stmts"]:
            if st["k"] in ("assign", "setdiscr") and st["lhs"]["local"] == 0:
                n += 1
                rv = st.get("rv")
                if st["k"] == "assign" and not st["lhs"]["proj"] and rv["k"] == "use" and rv["op"]["k"] == "move" and \
                        not rv["op"]["place"]["proj"] and rv["op"]["place"]["local"] > fj["arg_count"]:
                    cand = rv["op"]["place"]["local"]
        t = b["term"]
        if t["k"] == "call" and t.get("dest") is not None and t["dest"]["local"] == 0:
            n += 1
    if n != 1 or cand is None or fj["locals"][cand]["ty"] != fj["locals"][0]["ty"]:
        return fj
    out = dict(fj)
    blocks = []
    for b in fj["blocks"]:
        nb = dict(b)
        nb["stmts"] = [_rename_local_json(st, cand, 0) for st in b["stmts"]
                       if not (st["k"] == "assign" and st["lhs"]["local"] == 0 and not st["lhs"]["proj"])]
        nb["term"] = _rename_local_json(b["term"], cand, 0)
        blocks.append(nb)
    out["blocks"] = blocks
    out["debug"] = [_rename_local_json(d, cand, 0) for d in fj["debug"]]
    return out


def _shift_operand(o, lo, bo):
    if o["k"] in ("copy", "move"):
        q = dict(o)
        q["place"] = _shift_place(o["place"], lo, bo)
        return q
    return o


def _shift_rvalue(rv, lo, bo):
    q = dict(rv)
    for k in ("place",):
        if k in rv:
            q[k] = _shift_place(rv[k], lo, bo)
    for k in ("op", "l", "r", "x"):
        if k in rv and isinstance(rv[k], dict):
            q[k] = _shift_operand(rv[k], lo, bo)
    if "ops" in rv:
        q["ops"] = [_shift_operand(o, lo, bo) for o in rv["ops"]]
    return q


def _shift_term(t, lo, bo):
    q = dict(t)
    k = t["k"]
    if "target" in t and t["target"] is not None:
        q["target"] = t["target"] + bo
    if k == "switch":
        q["discr"] = _shift_operand(t["discr"], lo, bo)
        q["targets"] = [[v, b + bo] for v, b in t["targets"]]
        q["otherwise"] = t["otherwise"] + bo
    elif k in ("call", "tailcall"):
        q["func"] = _shift_operand(t["func"], lo, bo) if t["func"]["k"] in ("copy", "move") else t["func"]
        q["args"] = [_shift_operand(a, lo, bo) for a in t["args"]]
        if "dest" in t:
            q["dest"] = _shift_place(t["dest"], lo, bo)
    elif k == "drop":
        q["place"] = _shift_place(t["place"], lo, bo)
    elif k == "assert":
        q["cond"] = _shift_operand(t["cond"], lo, bo)
        for kk in ("len", "index"):
            if kk in t:
                q[kk] = _shift_operand(t[kk], lo, bo)
    return q


def _subst_const_params(fj, full):
    """A const-generic helper (`fn take<const N: usize>(..)`) is extracted once, with `N` symbolic; the call names the value
    (`take::<2>`).  With exactly one const parameter used in the body and exactly one integer in the call's generic arguments the
    value is substituted (operands and type strings), so the inlined copy is the code written out with the literal."""
    import re
    mm = re.search(r"::<([^<>]*)>$", full or "")
    if not mm:
        return fj
    nums = [a.strip() for a in mm.group(1).split(",") if re.fullmatch(r"\s*\d+(_[iu](8|16|32|64|128|size))?\s*", a)]
    names = set()

    def scan(x):
        if isinstance(x, dict):
            if x.get("k") == "const" and "bits" not in x and isinstance(x.get("text"), str) and re.fullmatch(r"[A-Z][A-Z0-9_]*", x["text"]):
                names.add(x["text"])
            for v in x.values():
                scan(v)
        elif isinstance(x, list):
            for v in x:
                scan(v)
    scan(fj["blocks"])
    if len(nums) != 1 or len(names) != 1:
        return fj
    name = names.pop()
    val = int(re.match(r"\d+", nums[0]).group(0))
    pat = re.compile(r"\b%s\b" % re.escape(name))

    def sub(x, key=None):
        if isinstance(x, dict):
            if x.get("k") == "const" and "bits" not in x and x.get("text") == name:
                y = dict(x)
                y["text"] = "%d_%s" % (val, x.get("ty", "usize"))
                y["bits"] = val
                return y
            return {k: sub(v, k) for k, v in x.items()}
        if isinstance(x, list):
            return [sub(v, key) for v in x]
        if isinstance(x, str) and key in ("ty", "s"):
            return pat.sub(str(val), x)
        return x
    out = dict(fj)
    out["blocks"] = sub(fj["blocks"])
    out["locals"] = sub(fj["locals"])
    return out


def inline_body(crate, bj, inlinable, depth=0, _stack=()):
    """return a body JSON in which every direct call of an inlinable crate-local function is spliced in"""
    if depth > 4:
        return bj
    blocks = [dict(b) for b in bj["blocks"]]
    locals_ = list(bj["locals"])
    debug = list(bj["debug"])
    changed = False
    bi = 0
    n0 = len(blocks)
    while bi < len(blocks):
        blk = blocks[bi]
        t = blk["term"]
        if t["k"] == "call" and t["func"]["k"] == "const" and "fn" in t["func"] and not blk["cleanup"] and t.get("target") is not None:
            c = Callee(t["func"]["fn"])
            bp = c.body_path
            if bp and bp in inlinable and bp != bj["path"] and bp not in _stack:
                fj = _nrvo(inline_body(crate, inlinable[bp], inlinable, depth + 1, _stack + (bj["path"],)))
                fj = _subst_const_params(fj, t["func"]["fn"].get("full"))
                if len(t["args"]) == fj["arg_count"]:
                    lo = len(locals_)
                    bo = len(blocks)
                    _REMAP.clear()
                    direct = not t["dest"]["proj"] and t["dest"]["local"] > bj["arg_count"] and \
                        locals_[t["dest"]["local"]]["ty"] == fj["locals"][0]["ty"]
                    if direct:
                        _REMAP[0] = t["dest"]["local"]
                    locals_.extend(fj["locals"])
                    for d in fj["debug"]:
                        if "local" in d["at"]:
                            dd = dict(d)
                            dd["at"] = _shift_place(d["at"], lo, bo)
                            dd["arg"] = None
                            debug.append(dd)
                    # argument assignments
                    stmts = list(blk["stmts"])
                    for ai, a in enumerate(t["args"]):
                        stmts.append({"k": "assign", "lhs": {"local": lo + 1 + ai, "proj": [], "ty": fj["locals"][1 + ai]["ty"]},
                                      "rv": {"k": "use", "op": a}, "span": t["span"], "exp": t.get("exp", False)})
                    newblk = dict(blk)
                    newblk["stmts"] = stmts
                    newblk["term"] = {"k": "goto", "target": bo, "span": t["span"], "exp": t.get("exp", False)}
                    blocks[bi] = newblk
                    for fb in fj["blocks"]:
                        nb = {"cleanup": fb["cleanup"], "stmts": [], "term": None}
                        for st in fb["stmts"]:
                            if st["k"] == "assign":
                                st2 = dict(st)
                                st2["lhs"] = _shift_place(st["lhs"], lo, bo)
                                st2["rv"] = _shift_rvalue(st["rv"], lo, bo)
                                nb["stmts"].append(st2)
                            elif st["k"] == "setdiscr":
                                st2 = dict(st)
                                st2["lhs"] = _shift_place(st["lhs"], lo, bo)
                                nb["stmts"].append(st2)
                            else:
                                nb["stmts"].append(st)
                        ft = fb["term"]
                        if ft["k"] == "return":
                            if not direct:
                                nb["stmts"].append({"k": "assign", "lhs": t["dest"],
                                                    "rv": {"k": "use", "op": {"k": "move", "place": {"local": lo, "proj": [], "ty": fj["locals"][0]["ty"]}}},
                                                    "span": ft["span"], "exp": ft.get("exp", False)})
                            nb["term"] = {"k": "goto", "target": t["target"], "span": ft["span"], "exp": ft.get("exp", False)}
                        else:
                            nb["term"] = _shift_term(ft, lo, bo)
                        blocks.append(nb)
                    _REMAP.clear()
                    changed = True
        bi += 1
    if not changed:
        return bj
    out = dict(bj)
    out["blocks"] = blocks
    out["locals"] = locals_
    out["debug"] = debug
    out["inlined"] = True
    return out


def _places(x, out):
    """all place dicts ({local, proj}) and index-projection dicts inside a MIR JSON fragment"""
    if isinstance(x, dict):
        if "local" in x and ("proj" in x or x.get("k") == "index"):
            out.append(x)
        for v in x.values():
            _places(v, out)
    elif isinstance(x, list):
        for v in x:
            _places(v, out)
    return out


def ssa_split(bj):
    """Split re-assigned locals into one local per definition where that is exact: a local that is never borrowed or partially
    assigned, and each of whose uses is reached by exactly one of its definitions (straight-line reassignment, e.g. a cursor
    `rest = tail;` between reads).  The term builder joins all definitions of a local; after the split the join is the precise
    reaching definition.  Locals that need a real phi (loop-carried or branch-joined) are left alone.  Normal (non-cleanup)
    control flow only."""
    blocks = bj["blocks"]
    n = len(blocks)
    nloc = len(bj["locals"])
    # --- candidate locals: >= 2 full definitions, never address-taken / partially defined
    defs = {}       # local -> [(bi, pos)]   pos = stmt index, or len(stmts) for the terminator
    bad = set()
    for bi, blk in enumerate(blocks):
        if blk["cleanup"]:
            continue
        for si, st in enumerate(blk["stmts"]):
            if st["k"] == "assign":
                lhs = st["lhs"]
                if not lhs["proj"]:
                    defs.setdefault(lhs["local"], []).append((bi, si))
                elif lhs["proj"][0]["k"] != "deref":
                    bad.add(lhs["local"])
                rv = st["rv"]
                if rv["k"] in ("ref", "rawptr") and (not rv["place"]["proj"] or rv["place"]["proj"][0]["k"] != "deref"):
                    bad.add(rv["place"]["local"])
            elif st["k"] == "setdiscr":
                bad.add(st["lhs"]["local"])
        t = blk["term"]
        if t["k"] == "call" and t.get("dest") is not None:
            if not t["dest"]["proj"]:
                defs.setdefault(t["dest"]["local"], []).append((bi, len(blk["stmts"])))
            elif t["dest"]["proj"][0]["k"] != "deref":
                bad.add(t["dest"]["local"])
        if t["k"] == "drop" and t["place"]["proj"]:
            pass
    cands = [l for l, ds in defs.items() if len(ds) >= 2 and l not in bad and l != 0]
    if not cands:
        return bj
    succ = [[] for _ in range(n)]
    for bi, blk in enumerate(blocks):
        if blk["cleanup"]:
            continue
        t = blk["term"]
        k = t["k"]
        if k == "goto":
            succ[bi] = [t["target"]]
        elif k == "switch":
            succ[bi] = sorted({b for _, b in t["targets"]} | {t["otherwise"]})
        elif k in ("call", "drop", "assert", "falseedge", "yield", "inlineasm"):
            if t.get("target") is not None:
                succ[bi] = [t["target"]]
    pred = [[] for _ in range(n)]
    for bi in range(n):
        for sb in succ[bi]:
            pred[sb].append(bi)
    out = bj
    changed_any = False
    new_locals = list(bj["locals"])
    new_debug = list(bj["debug"])
    newblocks = None
    for l in cands:
        ds = defs[l]
        entry_def = -1 if l <= bj["arg_count"] else None        # parameters carry a value on entry
        last_in_block = {}
        for di, (bi, pos) in enumerate(ds):
            last_in_block[bi] = di if bi not in last_in_block or ds[last_in_block[bi]][1] < pos else last_in_block[bi]
        IN = [set() for _ in range(n)]
        OUT = [set() for _ in range(n)]
        if entry_def is not None:
            IN[0] = {entry_def}
        work = list(range(n))
        while work:
            bi = work.pop()
            if blocks[bi]["cleanup"]:
                continue
            i = set(IN[bi])
            for pb in pred[bi]:
                i |= OUT[pb]
            if bi == 0 and entry_def is not None:
                i.add(entry_def)
            o = {last_in_block[bi]} if bi in last_in_block else set(i)
            if i != IN[bi] or o != OUT[bi]:
                IN[bi], OUT[bi] = i, o
                work.extend(succ[bi])
        # reaching definition of every use
        ok = True
        use_ver = {}     # (bi, pos, 'use') -> def index
        for bi, blk in enumerate(blocks):
            if blk["cleanup"] or not ok:
                continue
            cur = IN[bi]
            items = list(enumerate(blk["stmts"])) + [(len(blk["stmts"]), blk["term"])]
            for pos, x in items:
                # uses first (the right-hand side is evaluated before the definition takes effect)
                if pos < len(blk["stmts"]):
                    parts = [x.get("rv")] + ([x["lhs"]] if x["k"] in ("assign", "setdiscr") and x["lhs"]["proj"] else [])
                    uses = _places(parts, [])
                else:
                    y = {k_: v_ for k_, v_ in x.items() if k_ != "dest"}
                    uses = _places(y, [])
                    if x.get("dest") is not None and x["dest"]["proj"]:
                        uses += _places(x["dest"], [])
                if any(u["local"] == l for u in uses):
                    if len(cur) != 1:
                        ok = False
                        break
                    use_ver[(bi, pos)] = next(iter(cur))
                for di, (dbi, dpos) in enumerate(ds):
                    if dbi == bi and dpos == pos:
                        cur = {di}
        if not ok:
            continue
        # --- rename: definition di -> fresh local (definition 0 and the entry value keep the original local)
        ver_local = {-1: l, 0: l}
        for di in range(1, len(ds)):
            ver_local[di] = len(new_locals)
            new_locals.append(dict(bj["locals"][l]))
        for d in bj["debug"]:
            if isinstance(d.get("at"), dict) and d["at"].get("local") == l and not d["at"].get("proj"):
                for di in range(1, len(ds)):
                    dd = dict(d)
                    dd["at"] = dict(d["at"], local=ver_local[di])
                    dd["arg"] = None
                    new_debug.append(dd)
        if newblocks is None:
            newblocks = [dict(b_, stmts=list(b_["stmts"])) for b_ in blocks]
        for bi, blk in enumerate(newblocks):
            if blk["cleanup"]:
                continue
            for si, st in enumerate(blk["stmts"]):
                uv = use_ver.get((bi, si))
                dv = None
                for di, (dbi, dpos) in enumerate(ds):
                    if dbi == bi and dpos == si:
                        dv = di
                if uv is None and dv is None:
                    continue
                st2 = dict(st)
                if uv is not None and ver_local[uv] != l:
                    if "rv" in st2:
                        st2["rv"] = _rename_local_json(st["rv"], l, ver_local[uv])
                    if st["k"] in ("assign", "setdiscr") and st["lhs"]["proj"]:
                        st2["lhs"] = _rename_local_json(st["lhs"], l, ver_local[uv])
                if dv is not None and ver_local[dv] != l:
                    st2["lhs"] = dict(st["lhs"], local=ver_local[dv])
                blk["stmts"][si] = st2
            pos = len(blk["stmts"])
            uv = use_ver.get((bi, pos))
            dv = None
            for di, (dbi, dpos) in enumerate(ds):
                if dbi == bi and dpos == pos:
                    dv = di
            if uv is not None or dv is not None:
                t = blk["term"]
                t2 = dict(t)
                if uv is not None and ver_local[uv] != l:
                    for k_ in list(t.keys()):
                        if k_ != "dest":
                            t2[k_] = _rename_local_json(t[k_], l, ver_local[uv])
                    if t.get("dest") is not None and t["dest"]["proj"]:
                        t2["dest"] = _rename_local_json(t["dest"], l, ver_local[uv])
                if dv is not None and ver_local[dv] != l:
                    t2["dest"] = dict(t["dest"], local=ver_local[dv])
                blk["term"] = t2
        changed_any = True
        blocks = newblocks
    if not changed_any:
        return bj
    out = dict(bj)
    out["blocks"] = newblocks
    out["locals"] = new_locals
    out["debug"] = new_debug
    out["ssa_split"] = True
    return out


# ----------------------------------------------------------------------------- closures that do real work -> explicit control flow

class _Bail(Exception):
    pass


_OPT = "core::option::Option"
DESUGARED = ("core::option::Option::map_or", "core::option::Option::map", "core::option::Option::and_then",
             "core::iter::Iterator::find_map", "core::iter::Iterator::for_each")


def _map_places(x, f):
    """deep copy of a MIR JSON fragment with every place dict rewritten by f (f handles the place's own projections)"""
    if isinstance(x, dict):
        if "local" in x and "proj" in x:
            return f(x)
        return {k: _map_places(v, f) for k, v in x.items()}
    if isinstance(x, list):
        return [_map_places(v, f) for v in x]
    return x


def _closure_does_work(crate, cj):
    """a closure whose body contains a loop or calls a crate-local unsafe function carries control flow / table accesses the
    rules must see in its caller (an expression closure such as `|x| x + 1` is left to the combinator models of view.py)"""
    b = Body(crate, cj)
    if any(b.in_cycle(i) for i in b.live_blocks()):
        return True
    for bi, c, t in b.calls():
        if c.local and c.unsafe:
            return True
    return False


def _plain_local(op):
    return op["place"]["local"] if op["k"] in ("copy", "move") and not op["place"]["proj"] else None


def desugar_closures(crate, bj, inlinable, depth=0):
    """Normal-form step: a call `x.map_or(d, f)`, `x.map(f)`, `x.and_then(f)`, `it.find_map(f)`, `it.for_each(f)` whose closure f
    *does real work* (see _closure_does_work) is replaced by the explicit control flow it stands for, with the closure body
    spliced in and its up-var accesses replaced by the captured places:
        x.map_or(d, f)   ->  match x { None => d, Some(v) => f(v) }
        it.find_map(f)   ->  loop { match it.next() { None => break None, Some(v) => if let Some(r) = f(v) { break Some(r) } } }
    so that a search loop or a fail walk written inside a closure is seen by the rules like the same code written in place."""
    if depth > 3:
        return bj
    blocks = [dict(b) for b in bj["blocks"]]
    locals_ = list(bj["locals"])
    debug = list(bj["debug"])
    changed = False

    def new_local(ty="?", like=None):
        locals_.append(dict(like) if like is not None else {"ty": ty, "tyj": {"k": "unknown"}})
        return len(locals_) - 1

    def closure_def(local):
        """(bi, si, stmt) of the closure aggregate assigned to `local` (unique), chasing one move"""
        for _ in range(3):
            ds = [(bi, si, st) for bi, blk in enumerate(blocks) if not blk["cleanup"] for si, st in enumerate(blk["stmts"])
                  if st["k"] == "assign" and not st["lhs"]["proj"] and st["lhs"]["local"] == local]
            if len(ds) != 1:
                return None
            rv = ds[0][2]["rv"]
            if rv["k"] == "aggregate" and rv.get("akind") == "closure":
                return ds[0]
            if rv["k"] == "use" and _plain_local(rv["op"]) is not None:
                local = _plain_local(rv["op"])
                continue
            return None
        return None

    def ref_target(local):
        """Q when `local` is defined once as `&Q` / `&mut Q`"""
        ds = [st for blk in blocks if not blk["cleanup"] for st in blk["stmts"]
              if st["k"] == "assign" and not st["lhs"]["proj"] and st["lhs"]["local"] == local]
        if len(ds) == 1 and ds[0]["rv"]["k"] == "ref":
            return ds[0]["rv"]["place"]
        return None

    def splice(cj, captured, arg_ops, dest, target, span):
        """append the closure body; returns its entry block"""
        lo = len(locals_)
        bo = len(blocks)
        locals_.extend(cj["locals"])
        by_ref = str(cj["locals"][1]["ty"]).startswith("&")
        direct = not dest["proj"]

        def rw(pl):
            l = pl["local"]

            def shift_proj(pr):
                out = []
                for pe in pr:
                    if pe["k"] == "index":
                        pe = dict(pe)
                        if pe["local"] == 1:
                            raise _Bail()
                        pe["local"] = dest["local"] if (pe["local"] == 0 and direct) else pe["local"] + lo
                    out.append(pe)
                return out
            if l == 1:
                pr = pl["proj"]
                k = 0
                if by_ref:
                    if not pr or pr[0]["k"] != "deref":
                        raise _Bail()
                    k = 1
                if len(pr) <= k or pr[k]["k"] != "field":
                    raise _Bail()
                i = pr[k]["idx"]
                rest = shift_proj(pr[k + 1:])
                if i >= len(captured) or captured[i] is None:
                    raise _Bail()
                val_place, ref_place = captured[i]
                if ref_place is not None and rest and rest[0]["k"] == "deref":
                    base, rest = ref_place, rest[1:]
                else:
                    base = val_place
                return {"local": base["local"], "proj": list(base["proj"]) + rest, "ty": pl.get("ty")}
            q = dict(pl)
            q["local"] = dest["local"] if (l == 0 and direct) else l + lo
            q["proj"] = shift_proj(pl["proj"])
            return q
        entry_stmts = []
        for ai, a in enumerate(arg_ops):
            entry_stmts.append({"k": "assign", "lhs": {"local": lo + 2 + ai, "proj": [], "ty": cj["locals"][2 + ai]["ty"]},
                                "rv": {"k": "use", "op": a}, "span": span, "exp": False})
        for d in cj["debug"]:
            if isinstance(d.get("at"), dict) and "local" in d["at"] and d["at"]["local"] not in (0, 1):
                dd = dict(d)
                dd["at"] = dict(d["at"], local=d["at"]["local"] + lo)
                dd["arg"] = None
                debug.append(dd)
        newb = []
        for fi, fb in enumerate(cj["blocks"]):
            nb = {"cleanup": fb["cleanup"], "stmts": list(entry_stmts) if fi == 0 else [], "term": None}
            for st in fb["stmts"]:
                nb["stmts"].append(_map_places(st, rw) if st["k"] in ("assign", "setdiscr") else st)
            ft = fb["term"]
            if ft["k"] == "return":
                if not direct:
                    nb["stmts"].append({"k": "assign", "lhs": dest, "rv": {"k": "use", "op": {"k": "move", "place": {"local": lo, "proj": []}}},
                                        "span": span, "exp": False})
                nb["term"] = {"k": "goto", "target": target, "span": span, "exp": False}
            else:
                t2 = _map_places(ft, rw)
                if "target" in t2 and t2["target"] is not None:
                    t2["target"] = ft["target"] + bo
                if t2["k"] == "switch":
                    t2["targets"] = [[v, b_ + bo] for v, b_ in ft["targets"]]
                    t2["otherwise"] = ft["otherwise"] + bo
                nb["term"] = t2
            newb.append(nb)
        blocks.extend(newb)
        return bo

    bi = 0
    while bi < len(blocks):
        blk = blocks[bi]
        t = blk["term"]
        if not (t["k"] == "call" and not blk["cleanup"] and t["func"]["k"] == "const" and "fn" in t["func"] and t.get("target") is not None):
            bi += 1
            continue
        base = callee_base(Callee(t["func"]["fn"]).key)
        if base not in DESUGARED:
            bi += 1
            continue
        fop = t["args"][-1]
        fl = _plain_local(fop)
        cd = closure_def(fl) if fl is not None else None
        if cd is None:
            bi += 1
            continue
        cbi, csi, cst = cd
        cpath = cst["rv"]["closure"]
        cb = crate.bodies.get(cpath)
        if cb is None:
            bi += 1
            continue
        cj = desugar_closures(crate, inline_body(crate, cb.j, inlinable), inlinable, depth + 1)
        if not _closure_does_work(crate, cj):
            bi += 1
            continue
        captured = []
        for op in cst["rv"]["ops"]:
            if op["k"] in ("copy", "move"):
                rl = _plain_local(op)
                captured.append((op["place"], ref_target(rl) if rl is not None else None))
            else:
                captured.append(None)
        span = t["span"]
        dest, target = t["dest"], t["target"]
        saved = (len(blocks), len(locals_), len(debug))
        try:
            if base.startswith("core::option::Option::"):
                xop = t["args"][0]
                xl = new_local(like=locals_[_plain_local(xop)] if _plain_local(xop) is not None else None, ty=xop.get("ty", "?"))
                dl = new_local("isize")
                vl = new_local(like=cj["locals"][2])
                pre = [{"k": "assign", "lhs": {"local": xl, "proj": []}, "rv": {"k": "use", "op": xop}, "span": span, "exp": False},
                       {"k": "assign", "lhs": {"local": dl, "proj": []}, "rv": {"k": "discr", "place": {"local": xl, "proj": []}}, "span": span, "exp": False}]
                some_v = {"k": "move", "place": {"local": xl, "proj": [{"k": "downcast", "name": "Some", "variant": 1},
                                                                        {"k": "field", "name": "0", "idx": 0, "adt": _OPT, "variant": "Some"}]}}
                # None arm
                bN = len(blocks)
                if base.endswith("::map_or"):
                    none_rv = {"k": "use", "op": t["args"][1]}
                else:
                    none_rv = {"k": "aggregate", "akind": "adt", "adt": _OPT, "variant": "None", "fields": [], "ops": []}
                blocks.append({"cleanup": False, "stmts": [{"k": "assign", "lhs": dest, "rv": none_rv, "span": span, "exp": False}],
                               "term": {"k": "goto", "target": target, "span": span, "exp": False}})
                # Some arm
                bS = len(blocks)
                blocks.append({"cleanup": False, "stmts": [{"k": "assign", "lhs": {"local": vl, "proj": []}, "rv": {"k": "use", "op": some_v},
                                                            "span": span, "exp": False}], "term": None})
                if base.endswith("::map"):
                    rl = new_local(like=cj["locals"][0])
                    bW = len(blocks)
                    blocks.append({"cleanup": False, "stmts": [{"k": "assign", "lhs": dest, "rv": {
                        "k": "aggregate", "akind": "adt", "adt": _OPT, "variant": "Some", "fields": ["0"],
                        "ops": [{"k": "move", "place": {"local": rl, "proj": []}}]}, "span": span, "exp": False}],
                        "term": {"k": "goto", "target": target, "span": span, "exp": False}})
                    entry = splice(cj, captured, [{"k": "move", "place": {"local": vl, "proj": []}}], {"local": rl, "proj": []}, bW, span)
                else:
                    entry = splice(cj, captured, [{"k": "move", "place": {"local": vl, "proj": []}}], dest, target, span)
                blocks[bS]["term"] = {"k": "goto", "target": entry, "span": span, "exp": False}
                nb = dict(blk)
                nb["stmts"] = list(blk["stmts"]) + pre
                nb["term"] = {"k": "switch", "discr": {"k": "move", "place": {"local": dl, "proj": []}}, "discr_ty": "isize",
                              "targets": [[0, bN]], "otherwise": bS, "span": span, "exp": False}
                blocks[bi] = nb
            else:
                itop = t["args"][0]
                pre = []
                is_for_each = base.endswith("::for_each")
                if is_for_each:
                    # by-value receiver: keep it in a local and pull through a reference to it
                    il = new_local(like=locals_[_plain_local(itop)] if _plain_local(itop) is not None else None)
                    rl_ = new_local("&mut ?")
                    pre = [{"k": "assign", "lhs": {"local": il, "proj": []}, "rv": {"k": "use", "op": itop}, "span": span, "exp": False},
                           {"k": "assign", "lhs": {"local": rl_, "proj": []}, "rv": {"k": "ref", "mut": True, "place": {"local": il, "proj": []}},
                            "span": span, "exp": False}]
                    pull_arg = {"k": "copy", "place": {"local": rl_, "proj": []}}
                else:
                    pl_ = _plain_local(itop)
                    if pl_ is None:
                        raise _Bail()
                    pull_arg = {"k": "copy", "place": {"local": pl_, "proj": []}}
                fnj = dict(t["func"]["fn"])
                fnj.update({"path": "core::iter::Iterator::next", "name": "next", "full": "<_ as core::iter::Iterator>::next",
                            "targs": fnj.get("targs", [])[:1]})
                for k_ in ("resolved", "resolved_local", "resolved_adt", "resolved_self_ty"):
                    fnj.pop(k_, None)
                ol = new_local("core::option::Option<?>")
                dl = new_local("isize")
                vl = new_local(like=cj["locals"][2])
                bL = len(blocks)
                blocks.append({"cleanup": False, "stmts": [], "term": None})       # pull
                bC = len(blocks)
                blocks.append({"cleanup": False, "stmts": [{"k": "assign", "lhs": {"local": dl, "proj": []},
                                                            "rv": {"k": "discr", "place": {"local": ol, "proj": [], "ty": "core::option::Option<?>"}},
                                                            "span": span, "exp": False}], "term": None})
                bEnd = len(blocks)
                end_rv = {"k": "aggregate", "akind": "tuple", "ops": []} if is_for_each else \
                    {"k": "aggregate", "akind": "adt", "adt": _OPT, "variant": "None", "fields": [], "ops": []}
                blocks.append({"cleanup": False, "stmts": [{"k": "assign", "lhs": dest, "rv": end_rv, "span": span, "exp": False}],
                               "term": {"k": "goto", "target": target, "span": span, "exp": False}})
                bBody = len(blocks)
                some_v = {"k": "move", "place": {"local": ol, "proj": [{"k": "downcast", "name": "Some", "variant": 1},
                                                                        {"k": "field", "name": "0", "idx": 0, "adt": _OPT, "variant": "Some"}]}}
                blocks.append({"cleanup": False, "stmts": [{"k": "assign", "lhs": {"local": vl, "proj": []}, "rv": {"k": "use", "op": some_v},
                                                            "span": span, "exp": False}], "term": None})
                blocks[bL]["term"] = {"k": "call", "func": {"k": "const", "ty": "fn", "text": fnj["full"], "fn": fnj}, "args": [pull_arg],
                                      "dest": {"local": ol, "proj": []}, "target": bC, "span": span, "exp": False}
                blocks[bC]["term"] = {"k": "switch", "discr": {"k": "move", "place": {"local": dl, "proj": []}}, "discr_ty": "isize",
                                      "targets": [[0, bEnd]], "otherwise": bBody, "span": span, "exp": False}
                if is_for_each:
                    ul = new_local("()")
                    entry = splice(cj, captured, [{"k": "move", "place": {"local": vl, "proj": []}}], {"local": ul, "proj": []}, bL, span)
                else:
                    rl2 = new_local(like=cj["locals"][0])
                    d2 = new_local("isize")
                    bChk = len(blocks)
                    blocks.append({"cleanup": False, "stmts": [{"k": "assign", "lhs": {"local": d2, "proj": []},
                                                                "rv": {"k": "discr", "place": {"local": rl2, "proj": [], "ty": "core::option::Option<?>"}},
                                                                "span": span, "exp": False}], "term": None})
                    bFound = len(blocks)
                    blocks.append({"cleanup": False, "stmts": [{"k": "assign", "lhs": dest, "rv": {"k": "use", "op": {"k": "move", "place": {"local": rl2, "proj": []}}},
                                                                "span": span, "exp": False}],
                                   "term": {"k": "goto", "target": target, "span": span, "exp": False}})
                    blocks[bChk]["term"] = {"k": "switch", "discr": {"k": "move", "place": {"local": d2, "proj": []}}, "discr_ty": "isize",
                                            "targets": [[0, bL]], "otherwise": bFound, "span": span, "exp": False}
                    entry = splice(cj, captured, [{"k": "move", "place": {"local": vl, "proj": []}}], {"local": rl2, "proj": []}, bChk, span)
                blocks[bBody]["term"] = {"k": "goto", "target": entry, "span": span, "exp": False}
                nb = dict(blk)
                nb["stmts"] = list(blk["stmts"]) + pre
                nb["term"] = {"k": "goto", "target": bL, "span": span, "exp": False}
                blocks[bi] = nb
        except (_Bail, KeyError, IndexError, TypeError):
            del blocks[saved[0]:]
            del locals_[saved[1]:]
            del debug[saved[2]:]
            blocks[bi] = blk
            bi += 1
            continue
        # the closure value itself is no longer used
        cb_ = dict(blocks[cbi])
        cb_["stmts"] = [st for si, st in enumerate(blocks[cbi]["stmts"]) if not (cbi != bi and si == csi) and not (cbi == bi and st is cst)]
        blocks[cbi] = cb_
        changed = True
        bi += 1
    if not changed:
        return bj
    out = dict(bj)
    out["blocks"] = blocks
    out["locals"] = locals_
    out["debug"] = debug
    out["desugared"] = True
    return out


def deref_subst(bj):
    """Normal-form step: a reference local that is created once as `r = &mut P` / `&P` (P built from derefs and field projections
    of a stable base: an argument or a once-defined local), possibly handed on through plain moves, and that is used ONLY through
    `*r` (never passed to a call, stored, compared or returned) is eliminated: every `(*r).rest` becomes `P.rest` and the borrow
    itself is dropped.  After this a helper taking `state: &mut u32`, inlined at a call that passes `&mut self.state_id`, reads and
    writes `self.state_id` exactly like the code written in place."""
    import copy
    blocks = bj["blocks"]
    nargs = bj["arg_count"]
    defs = {}
    for bi, blk in enumerate(blocks):
        if blk["cleanup"]:
            continue
        for si, st in enumerate(blk["stmts"]):
            if st["k"] == "assign" and not st["lhs"]["proj"]:
                defs.setdefault(st["lhs"]["local"], []).append((bi, si, st["rv"]))
            elif st["k"] == "assign":
                defs.setdefault(st["lhs"]["local"], []).append((bi, si, None)) if not any(pe["k"] == "deref" for pe in st["lhs"]["proj"]) else None
        t = blk["term"]
        if t["k"] == "call" and t.get("dest") is not None:
            defs.setdefault(t["dest"]["local"], []).append((bi, None, "call"))

    def stable(l):
        return (1 <= l <= nargs and not defs.get(l)) or (l > nargs and len(defs.get(l, [])) == 1)

    target = {}

    def resolve(l, depth=0):
        if l in target:
            return target[l]
        if depth > 6 or l <= nargs or l == 0:
            return None
        d = defs.get(l, [])
        if len(d) != 1 or d[0][2] in (None, "call"):
            return None
        rv = d[0][2]
        if rv["k"] == "ref" and "place" in rv:
            P = rv["place"]
            if all(pe["k"] in ("deref", "field") for pe in P["proj"]) and P["proj"] and stable(P["local"]) and P["local"] != l:
                return P
            return None
        if rv["k"] == "use" and rv["op"]["k"] in ("move", "copy") and not rv["op"]["place"]["proj"]:
            return resolve(rv["op"]["place"]["local"], depth + 1)
        return None
    cands = {}
    for l in list(defs):
        P = resolve(l)
        if P is not None:
            cands[l] = P
    if not cands:
        return bj
    # every occurrence must be `(*r)...` or the hand-on move `r2 = move r` between candidates (or r's own definition)
    bad = set()
    for bi, blk in enumerate(blocks):
        for si, st in enumerate(blk["stmts"]):
            own = None
            if st["k"] == "assign" and not st["lhs"]["proj"] and st["lhs"]["local"] in cands:
                own = st["lhs"]["local"]
            for pl in _places(st, []):
                l = pl.get("local")
                if l not in cands:
                    continue
                if "proj" not in pl:
                    bad.add(l)
                elif pl is st.get("lhs") and own == l:
                    continue
                elif pl["proj"] and pl["proj"][0]["k"] == "deref":
                    continue
                elif own is not None and st["rv"]["k"] == "use" and st["rv"]["op"].get("place") is pl and not pl["proj"]:
                    continue                   # r2 = move r
                else:
                    bad.add(l)
        for pl in _places(blk["term"], []):
            l = pl.get("local")
            if l in cands and not ("proj" in pl and pl["proj"] and pl["proj"][0]["k"] == "deref"):
                bad.add(l)
    # a hand-on chain is only as good as its weakest member
    changed = True
    while changed:
        changed = False
        for l in list(cands):
            if l in bad:
                continue
            d = defs[l][0][2]
            if d["k"] == "use":
                src = d["op"]["place"]["local"]
                if src in bad or src not in cands:
                    bad.add(l)
                    changed = True
        for l in list(cands):
            if l in bad:
                continue
            # r is moved on to r2: r2 must be a live candidate too
            for bi, blk in enumerate(blocks):
                for st in blk["stmts"]:
                    if st["k"] == "assign" and not st["lhs"]["proj"] and st["rv"]["k"] == "use" and st["rv"]["op"]["k"] in ("move", "copy") and \
                            not st["rv"]["op"]["place"]["proj"] and st["rv"]["op"]["place"]["local"] == l and \
                            (st["lhs"]["local"] not in cands or st["lhs"]["local"] in bad):
                        bad.add(l)
                        changed = True
    live = {l: P for l, P in cands.items() if l not in bad}
    if not live:
        return bj
    out = copy.deepcopy(bj)

    def rewrite(pl):
        q = dict(pl)
        q["proj"] = list(pl["proj"])
        for _ in range(8):         # a borrow of a borrow: `r2 = &mut *r`
            if q["local"] in live and q["proj"] and q["proj"][0]["k"] == "deref":
                P = live[q["local"]]
                q["local"] = P["local"]
                q["proj"] = copy.deepcopy(P["proj"]) + q["proj"][1:]
            else:
                break
        q["proj"] = _map_places(q["proj"], rewrite)
        return q
    for blk in out["blocks"]:
        newst = []
        for st in blk["stmts"]:
            if st["k"] == "assign" and not st["lhs"]["proj"] and st["lhs"]["local"] in live:
                continue                       # the borrow / its hand-on move is gone
            newst.append(_map_places(st, rewrite))
        blk["stmts"] = newst
        blk["term"] = _map_places(blk["term"], rewrite)
    return out


def sroa_tuples(bj):
    """Scalar replacement of a tuple that only carries values across a (now inlined) call boundary: a local defined once as
    `t = (a, b, ..)` from plain places, never borrowed or used whole, whose every use is a field read `t.i`, is eliminated by
    reading the i-th operand instead — provided that operand cannot change between the construction and the read.  After this
    `let (counts, matched) = helper(..)` with the helper inlined is the same as computing `counts` and `matched` in place."""
    blocks = bj["blocks"]
    n = len(blocks)
    # candidate tuple locals
    agg = {}
    ndefs = {}
    for bi, blk in enumerate(blocks):
        if blk["cleanup"]:
            continue
        for si, st in enumerate(blk["stmts"]):
            if st["k"] == "assign" and not st["lhs"]["proj"]:
                l = st["lhs"]["local"]
                ndefs[l] = ndefs.get(l, 0) + 1
                rv = st["rv"]
                if rv["k"] == "aggregate" and rv.get("akind") == "tuple" and rv["ops"] and \
                        all(o["k"] in ("copy", "move") for o in rv["ops"]):
                    agg[l] = (bi, si, rv["ops"])
        t = blk["term"]
        if t["k"] == "call" and t.get("dest") is not None and not t["dest"]["proj"]:
            ndefs[t["dest"]["local"]] = ndefs.get(t["dest"]["local"], 0) + 1
    cands = {l: v for l, v in agg.items() if ndefs.get(l) == 1 and l != 0 and l > bj["arg_count"]}
    if not cands:
        return bj
    # every occurrence of the local must be `t.<field i>...` in a read position
    uses = {l: [] for l in cands}
    bad = set()

    def scan(x, where):
        for pl in _places(x, []):
            l = pl.get("local")
            if l in cands:
                if "proj" not in pl:                       # an index projection using the tuple as index: impossible, be safe
                    bad.add(l)
                elif not pl["proj"] or pl["proj"][0]["k"] != "field":
                    bad.add(l)
                else:
                    uses[l].append(where)
    for bi, blk in enumerate(blocks):
        if blk["cleanup"]:
            continue
        for si, st in enumerate(blk["stmts"]):
            if st["k"] == "assign":
                if not st["lhs"]["proj"] and st["lhs"]["local"] in cands:
                    pass                                    # the defining aggregate
                else:
                    if st["lhs"]["local"] in cands:
                        bad.add(st["lhs"]["local"])
                rv = st["rv"]
                if rv["k"] in ("ref", "rawptr") and rv["place"]["local"] in cands:
                    bad.add(rv["place"]["local"])
                scan(rv, (bi, si))
            elif st["k"] == "setdiscr":
                if st["lhs"]["local"] in cands:
                    bad.add(st["lhs"]["local"])
        t = blk["term"]
        scan({k: v for k, v in t.items() if k != "dest"}, (bi, len(blk["stmts"])))
        if t.get("dest") is not None and t["dest"]["local"] in cands:
            bad.add(t["dest"]["local"])
    succ = [[] for _ in range(n)]
    for bi, blk in enumerate(blocks):
        if blk["cleanup"]:
            continue
        t = blk["term"]
        k = t["k"]
        if k == "goto":
            succ[bi] = [t["target"]]
        elif k == "switch":
            succ[bi] = sorted({b for _, b in t["targets"]} | {t["otherwise"]})
        elif t.get("target") is not None:
            succ[bi] = [t["target"]]

    def reach_from(starts, avoid):
        seen = set()
        work = [x for x in starts]
        while work:
            x = work.pop()
            if x in seen or x == avoid:
                continue
            seen.add(x)
            work.extend(succ[x])
        return seen
    # definitions of every local (block, position)
    defs_of = {}
    for bi, blk in enumerate(blocks):
        if blk["cleanup"]:
            continue
        for si, st in enumerate(blk["stmts"]):
            if st["k"] in ("assign", "setdiscr"):
                defs_of.setdefault(st["lhs"]["local"], []).append((bi, si))
            if st["k"] == "assign" and st["rv"]["k"] in ("ref", "rawptr") and st["rv"].get("mut", True):
                defs_of.setdefault(st["rv"]["place"]["local"], []).append((bi, si))      # may be written through the borrow
        t = blk["term"]
        if t["k"] == "call" and t.get("dest") is not None:
            defs_of.setdefault(t["dest"]["local"], []).append((bi, len(blk["stmts"])))
    subst = {}
    for l, (abi, asi, ops) in cands.items():
        if l in bad or not uses[l]:
            continue
        ok = True
        after = reach_from(succ[abi], abi)
        for o in ops:
            ol = o["place"]["local"]
            for (dbi, dsi) in defs_of.get(ol, []):
                if dbi == abi:
                    if dsi > asi:
                        ok = False
                elif dbi in after:
                    # a later write of the operand that can still reach a use without rebuilding the tuple
                    fwd = reach_from([dbi], abi)
                    if any(ubi in fwd for ubi, _ in uses[l]):
                        ok = False
        if ok:
            subst[l] = ops
    if not subst:
        return bj

    def rw(pl):
        l = pl["local"]
        if l in subst and pl["proj"] and pl["proj"][0]["k"] == "field":
            i = pl["proj"][0]["idx"]
            if i < len(subst[l]):
                base = subst[l][i]["place"]
                return {"local": base["local"], "proj": list(base["proj"]) + list(pl["proj"][1:]), "ty": pl.get("ty")}
        return pl
    newblocks = []
    for bi, blk in enumerate(blocks):
        if blk["cleanup"]:
            newblocks.append(blk)
            continue
        nb = dict(blk)
        sts = []
        for si, st in enumerate(blk["stmts"]):
            if st["k"] == "assign" and not st["lhs"]["proj"] and st["lhs"]["local"] in subst:
                continue                                     # the tuple itself is gone
            sts.append(_map_places(st, rw) if st["k"] in ("assign", "setdiscr") else st)
        nb["stmts"] = sts
        nb["term"] = _map_places(blk["term"], rw)
        newblocks.append(nb)
    out = dict(bj)
    out["blocks"] = newblocks
    out["sroa"] = True
    return out


def normalise_crate(crate, anchors):
    """replace every body by its normal form; non-anchor crate-local functions that were spliced into all their callers are
    removed from crate.bodies (kept in crate.helper_bodies)"""
    raw = {p: b.j for p, b in crate.bodies.items()}
    inlinable = {p: j for p, j in raw.items() if j["kind"] in ("AssocFn", "Fn") and p not in anchors}
    newj = {}
    for p, j in raw.items():
        if j["kind"] == "Promoted":
            newj[p] = j
        else:
            newj[p] = ssa_split(sroa_tuples(deref_subst(desugar_closures(crate, deref_subst(inline_body(crate, j, inlinable)), inlinable))))
    crate.helper_bodies = {}
    crate.bodies = {}
    for p, j in newj.items():
        b = Body(crate, j)
        if p in inlinable:
            crate.helper_bodies[p] = b
        else:
            crate.bodies[p] = b
    # closures defined inside inlined-away helpers stay reachable by path (FnView looks them up in crate.bodies)
    # closures by the body that CREATES them (after inlining a helper's closures are created in its callers)
    crate.closures_of = {}
    for b in crate.bodies.values():
        for blk in b.blocks:
            for st in blk["stmts"]:
                if st["k"] == "assign" and st["rv"]["k"] == "aggregate" and st["rv"].get("akind") == "closure":
                    cb = crate.bodies.get(st["rv"]["closure"])
                    if cb is not None and cb not in crate.closures_of.get(b.path, []):
                        crate.closures_of.setdefault(b.path, []).append(cb)
    crate._field_writes = None
    crate.inlined_helpers = sorted(inlinable)
    return crate
