"""TERM-LOOPS (C13), STAT-HEAP / STAT-ELEM / STAT-SIZE (C15), VALID-KIND (C10)."""
from . import core
from .core import Callee, walk, show
from .view import FnView, pnorm, OPTION
from .pat import m, ANY, V, K, Par, C, F, E, P, B, Phi, members
from .da import Sites, endswith, anykey
from .search import switches_on, opt_arms, bool_arms, is_const, GET_UNCHECKED, pull_switches
from .roles import reachable_bodies

ITER_NEXT = "core::iter::Iterator::next"


# ----------------------------------------------------------------------------- TERM-LOOPS

def rule_term_loops(ctx, R):
    lib = ctx.lib
    roots = []
    for v in R.variants():
        if v.ok:
            roots += list(v.next.values())
    reach = reachable_bodies(lib, roots)
    ctx.note("search_call_graph_bodies", len(reach))
    ctx.check(len(reach) >= 20, "TERM-LOOPS", "daachorse", "search-graph-floor", "", "search call graph unexpectedly small: %d" % len(reach))
    trans = {}
    for v in R.variants():
        if v.ok:
            for p, b in v.trans.items():
                trans[p] = v
    # no recursion among search-time functions
    edges = {}
    for b in reach.values():
        outs = set()
        for bi, c, t in b.calls():
            bp = c.body_path
            if bp in reach:
                outs.add(bp)
        for cb in lib.closures_of.get(b.path, []):
            outs.add(cb.path)
        edges[b.path] = outs
    color = {}

    def dfs(u, stack):
        color[u] = 1
        for w in edges.get(u, ()):
            if color.get(w) == 1:
                return stack + [u, w]
            if w not in color:
                r = dfs(w, stack + [u])
                if r:
                    return r
        color[u] = 2
        return None
    cyc = None
    for u in list(edges):
        if u not in color:
            cyc = cyc or dfs(u, [])
    ctx.check(cyc is None, "TERM-LOOPS", "daachorse", "no-recursion", "", "search-time functions must not be recursive; cycle %s" % cyc)
    nloops = 0
    for b in reach.values():
        S = None
        for comp in b.sccs():
            nloops += 1
            if S is None:
                S = Sites(lib, b)
            kind = _classify_loop(ctx, lib, b, S, comp, trans)
            ctx.check(kind is not None, "TERM-LOOPS", b, "loop-classified@bb%s" % "", b.loc(min(comp)),
                      "every cycle of a search-time function must be driven by a pull from the finite source or be the fail walk; "
                      "loop over blocks %s is %s" % (sorted(comp)[:6], kind or "UNCLASSIFIED"))
    ctx.note("search_loops", nloops)
    ctx.check(nloops >= 10, "TERM-LOOPS", "daachorse", "loops-floor", "", "expected >= 10 loops in search code (8 scans + transitions); saw %d" % nloops)


def _classify_loop(ctx, lib, b, S, comp, trans):
    # (a) pull-driven: the loop contains a call of Iterator::next whose None arm leaves the loop, and every
    #     path around the loop passes that pull
    pulls = [s for s in S.calls if s["vw"].body is b and s["bb"] in comp and core.callee_base(s["key"]) == ITER_NEXT]
    for p in pulls:
        sw = pull_switches(S.root, (b.path, p["bb"]))
        if len(sw) != 1:
            continue
        _, some, none = sw[0]
        leaves = none not in comp or not (b.reach(none) & set([p["bb"]]))
        # no cycle inside comp that avoids the pull block
        inner = any(x in b.reach(s, avoid_blocks=[p["bb"]]) for x in comp if x != p["bb"] for s in b.succ(x) if s in comp and s == x) or \
            _has_cycle_avoiding(b, comp, p["bb"])
        if leaves and not inner:
            return "pull-driven"
    # (a') index-driven: the loop contains a checked read `slice.get(i)` whose None arm leaves the loop, every path around the
    #      loop passes that read, and i is a counter stepped by a positive constant on every path round the loop (so it reaches slice.len())
    gets = [s for s in S.calls if s["vw"].body is b and s["bb"] in comp and core.callee_base(s["key"]) == "core::slice::get"]
    for g in gets:
        sw = switches_on(S.root, lambda d: d[0] == "discr" and d[1][0] == "call" and d[1][3] == (b.path, g["bb"]))
        if len(sw) != 1:
            continue
        some, none = opt_arms(sw[0][1])
        if none in comp and (b.reach(none) & {g["bb"]}):
            continue
        if _has_cycle_avoiding(b, comp, g["bb"]):
            continue
        idx = g["args"][1]
        cl = {x[1] for x in core.walk(idx) if x[0] == "loop"}
        if idx[0] != "phi" or len(cl) != 1:
            continue
        cl = cl.pop()
        upd, okc = [], True
        for bi, si, st in b.stmts():
            if st["k"] == "assign" and not st["lhs"]["proj"] and st["lhs"]["local"] == cl and bi in comp:
                t = pnorm(S.root.T.rvalue(st["rv"]))
                if t[0] == "field" and t[1][0] == "ovf":
                    t = t[1]
                # (termination needs a strictly positive constant step, not exactly one)
                if t[0] in ("bin", "ovf") and t[1] == "Add" and any(x[0] == "const" and isinstance(x[1], int) and not isinstance(x[1], bool)
                                                                     and x[1] >= 1 for x in (t[2], t[3])):
                    upd.append(bi)
                else:
                    okc = False
        if okc and upd and g["bb"] not in b.reach(some, avoid_blocks=upd):
            return "index-driven"
    # (b) the fail walk of a transition function
    if b.path in trans:
        v = trans[b.path]
        childs = [s for s in S.calls if s["vw"].body is b and s["bb"] in comp and s["c"].body_path in v.child]
        fails = [s for s in S.calls if s["vw"].body is b and s["bb"] in comp and s["c"].adt == v.S and s["name"] == "fail"]
        if len(childs) >= 1 and len(fails) == 1:
            # every trip around the loop passes the fail read, and the loop state is replaced by it
            if not _has_cycle_avoiding(b, comp, fails[0]["bb"]) and not _has_cycle_avoiding(b, comp, childs[0]["bb"]):
                st = childs[0]["args"][1]
                ok = all((x[0] == "param" and x[1] == 2) or x[0] == "loop" or (x[0] == "call" and x[1] == v.S + "::fail") for x in members(st))
                # the loop has a ROOT exit
                eq_root = switches_on(S.root, lambda d: d[0] == "bin" and d[1] == "Eq" and (is_const(d[2], 0) or is_const(d[3], 0)))
                has_exit = any(sbi in comp and bool_arms(stj)[0] not in comp for sbi, stj, d in eq_root)
                if ok and not has_exit:
                    # any other form of the exit test (`while child.is_none() && state != ROOT`): the transition's decision table
                    # (TRANS-TABLE) has the row "no child at ROOT -> returns", i.e. the walk leaves the loop at ROOT
                    from . import search
                    try:
                        has_exit = bool(search._trans_semantic(ctx, v, b, S.fv, b.path in v.trans_of_kind.get("leftmost", set())))
                    except Exception:
                        has_exit = False
                if ok and has_exit:
                    return "fail-walk"
    return None


def _has_cycle_avoiding(b, comp, blk):
    """is there a cycle inside `comp` that does not pass through `blk`?"""
    nodes = [x for x in comp if x != blk]
    for x in nodes:
        for s in b.succ(x):
            if s in comp and s != blk:
                if x in b.reach(s, avoid_blocks=[blk] + [y for y in range(len(b.blocks)) if y not in comp]):
                    return True
    return False


# ----------------------------------------------------------------------------- STAT

def rule_stat(ctx, R):
    lib = ctx.lib
    for v in R.variants():
        if not v.ok:
            continue
        tag = v.tag
        hb = lib.one_body(adt=v.A, name="heap_bytes")
        ns = lib.one_body(adt=v.A, name="num_states")
        if hb is None or ns is None:
            ctx.missing("STAT-HEAP", "%s::heap_bytes / num_states" % v.A)
            continue
        t = pnorm(FnView(lib, ns).root.ret())
        ctx.check(m(F(Par(1), "num_states", v.A), t), "STAT-NS", ns, "accessor:" + tag, ns.span,
                  "num_states() must report the stored state count; returns %s" % show(t))
        # heap_bytes: one term len*size_of::<Elem>() per Vec in the automaton (transitively)
        want = []
        for fd in lib.adts[v.A]["variants"][0]["fields"]:
            tj = fd["tyj"]
            if tj["k"] == "adt" and tj["path"] == "alloc::vec::Vec":
                want.append((fd["name"], tj["args"][0]["s"], None))
            elif tj["k"] == "adt" and tj.get("krate") == lib.name and tj["path"] in lib.adts:
                for fd2 in lib.adts[tj["path"]]["variants"][0]["fields"]:
                    t2 = fd2["tyj"]
                    if t2["k"] == "adt" and t2["path"] == "alloc::vec::Vec":
                        want.append((fd2["name"], t2["args"][0]["s"], (fd["name"], tj["path"])))
        # collect (vec field, elem type) products, following crate-local helper calls (mapper.heap_bytes())
        got = []
        work = [(hb, None)]
        seen = set()
        while work:
            b, via = work.pop()
            if b.path in seen:
                continue
            seen.add(b.path)
            S = Sites(lib, b)
            sizeofs = {(b.path, s["bb"]): s["c"].targ_s(0) for s in S.calls if s["key"].endswith("mem::size_of")}
            ret = pnorm(S.root.ret())
            for x in walk(ret):
                if x[0] == "bin" and x[1] == "Mul":
                    a, c = x[2], x[3]
                    for ln, sz in ((a, c), (c, a)):
                        if ln[0] == "call" and core.callee_base(ln[1]) in ("alloc::vec::Vec::len", "alloc::vec::Vec::capacity") and \
                                sz[0] == "call" and sz[3] in sizeofs and ln[2][0][0] == "field":
                            got.append((ln[2][0][3], sizeofs[sz[3]]))
            only_add = all(y[0] != "bin" or y[1] in ("Add", "Mul") for y in walk(ret))
            ctx.check(only_add, "STAT-HEAP", b, "sum-of-products:" + tag, b.span, "heap size must be a plain sum of len*size products; found %s" % show(ret))
            for s in S.calls:
                bp = s["c"].body_path
                if bp and bp in lib.bodies and s["name"] == "heap_bytes":
                    work.append((lib.bodies[bp], s))
        wantset = sorted((n, e) for n, e, _ in want)
        ctx.check(sorted(got) == wantset, "STAT-HEAP", hb, "every-table-counted:" + tag, hb.span,
                  "heap_bytes must count every heap table of the automaton with its own element size; expected %s, found %s" % (wantset, sorted(got)))
        # layout sizes
        sz = lib.adts[v.S]["size"]
        ctx.check(sz == (12 if tag == "bw" else 16), "STAT-SIZE", v.S, "state-size:" + tag, lib.adts[v.S]["span"],
                  "size_of::<%s>() must be %d bytes (the documented per-state cost); layout says %s" % (v.S, 12 if tag == "bw" else 16, sz))
        ne = lib.one_body(adt=v.A, name="num_elements")
        if ne is not None:
            t = pnorm(FnView(lib, ne).root.ret())
            ctx.check(m(C("alloc::vec::Vec::len", F(Par(1), "states", v.A)), t), "STAT-ELEM", ne, "num_elements:" + tag, ne.span,
                      "num_elements() must be states.len(); returns %s" % show(t))


# ----------------------------------------------------------------------------- VALID-KIND

def rule_valid_kind(ctx, R, NR, BR):
    """each error-constructor site reports the kind that matches the condition guarding it"""
    lib = ctx.lib
    E = "errors::DaachorseError"
    sites = 0
    for b in lib.bodies.values():
        if "::tests::" in b.path:
            continue
        for bi, c, t in b.calls():
            if c.adt != E or c.name not in ("invalid_argument", "duplicate_pattern", "automaton_scale", "invalid_conversion"):
                continue
            sites += 1
            owner = lib.owner_of(b)
            S = Sites(lib, owner)
            role = _guard_role(lib, owner, S, b, bi)
            want = {"zero-length": "invalid_argument", "empty-set": "invalid_argument", "too-long": "invalid_argument",
                    "duplicate": "duplicate_pattern", "conversion": "invalid_conversion", "scale": "automaton_scale"}.get(role)
            ctx.check(want == c.name, "VALID-KIND", owner, "kind:%s:%s" % (role, c.name), b.loc(bi),
                      "an error guarded by a `%s` condition must be reported as %s; this site reports %s" % (role, want, c.name))
    ctx.note("error_constructor_sites", sites)
    ctx.check(sites >= 16, "VALID-KIND", "daachorse", "sites-floor", "", "expected >= 16 error constructor sites; saw %d" % sites)
    # the four kinds map 1:1 onto enum variants
    for kind, var in (("invalid_argument", "InvalidArgument"), ("duplicate_pattern", "DuplicatePattern"),
                      ("automaton_scale", "AutomatonScale"), ("invalid_conversion", "InvalidConversion")):
        cb = lib.one_body(adt=E, name=kind)
        if cb is None:
            ctx.missing("VALID-KIND", "DaachorseError::" + kind)
            continue
        t = pnorm(FnView(lib, cb).root.ret())
        ctx.check(t[0] == "agg" and t[2] == var, "VALID-KIND", cb, "constructor:" + kind, cb.span,
                  "DaachorseError::%s must build the %s variant; builds %s" % (kind, var, show(t)[:80]))


def _guard_role(lib, owner, S, b, bi):
    """classify the condition under which the error site (possibly in a closure passed to map_err /
    ok_or_else) is reached"""
    if b is not owner:
        # the combinator call that received the closure
        vw = [v for v in S.fv.views if v.body is b]
        if vw and vw[0].via:
            cbi, key = vw[0].via
            base = core.callee_base(key)
            call = [s for s in S.calls if s["bb"] == cbi and s["vw"].body is vw[0].parent.body]
            recv = call[0]["args"][0] if call else ("undef",)
            txt = show(recv)
            if base == "core::option::Option::ok_or_else":
                if any(x[0] == "call" and core.callee_base(x[1]) == "core::num::NonZero::new" for x in walk(recv)):
                    return "zero-length"
                if any(x[0] == "call" and "checked_" in str(x[1]) for x in walk(recv)):
                    return "scale"
            if base == "core::result::Result::map_err":
                if any(x[0] == "call" and core.callee_base(x[1]) == "core::iter::Iterator::collect" for x in walk(recv)):
                    return "conversion"
                # integer conversion failures: pattern length -> u32 is "too long"; counts -> u32 are scale limits
                if any(x[0] == "call" and core.callee_base(x[1]) == "core::iter::Iterator::fold" for x in walk(recv)):
                    return "too-long"
                if any(x[0] == "call" and core.callee_base(x[1]) in ("core::convert::TryFrom::try_from", "core::convert::TryInto::try_into") for x in walk(recv)) \
                        or any(x[0] == "call" and core.callee_base(x[1]) == "alloc::vec::Vec::len" for x in walk(recv)):
                    return "scale"
            return "unknown-closure:" + base
        return "unknown-closure"
    # direct site: nearest dominating branch one of whose arms does not reach the site
    cands = []
    for sbi in sorted(owner.live_blocks()):
        t = owner.blocks[sbi]["term"]
        if t["k"] == "switch":
            succs = owner.succ(sbi)
            reach = [bi in owner.reach(s, avoid_blocks=[sbi]) for s in succs]
            if any(reach) and not all(reach) and owner.dominates(sbi, bi):
                cands.append(sbi)
    g = None
    for x in cands:
        if all(owner.dominates(o, x) for o in cands):
            g = x
    if g is None:
        return "unguarded"
    d = S.root.op(owner.blocks[g]["term"]["discr"])
    consts = [x[1] for x in walk(d) if x[0] == "const" and isinstance(x[1], int)]
    callees = [core.callee_base(x[1]) for x in walk(d) if x[0] == "call" and isinstance(x[1], str)]
    if any(k in ("core::option::Option::replace", "alloc::collections::BTreeSet::insert", "alloc::collections::BTreeSet::contains") for k in callees):
        return "duplicate"
    if d[0] == "discr" and d[1][0] == "call" and core.callee_base(d[1][1]) == "core::num::NonZero::new":
        return "zero-length"
    if d[0] == "discr" and d[1][0] == "call" and core.callee_base(d[1][1]) == "core::iter::Iterator::collect":
        return "conversion"
    if d[0] == "discr" and d[1][0] == "call" and core.callee_base(d[1][1]).split("::")[-1] in ("checked_add", "checked_mul", "checked_sub"):
        return "scale"
    if any(k in ("core::convert::TryFrom::try_from", "core::convert::TryInto::try_into") for k in callees):
        # the byte length of a pattern not fitting u32 is "pattern too long" (invalid argument); counts not fitting are scale limits
        if any(str(k).split("@")[0].endswith("EdgeLabel::num_bytes") for k in callees):
            return "too-long"
        return "scale"
    if d[0] == "discr" and any("try_from" in str(k) for k in callees):
        return "scale"
    if d[0] == "bin" and d[1] in ("Eq", "Ne") and 0 in consts and any(x[0] == "field" and x[3] == "len" for x in walk(d)):
        return "empty-set"
    if d[0] == "bin" and d[1] in ("Gt", "Ge", "Lt", "Le") and any(c >= 0xFFFF for c in consts):
        return "scale"
    if d[0] == "bin" and d[1] in ("Gt", "Ge", "Lt", "Le") and any(x[0] == "bin" and x[1] == "Sub" for x in walk(d)):
        return "scale"
    if d[0] == "discr":
        # `if let Ok(x) = U24::try_from(x)` / `if let Ok(id) = u32::try_from(len)`
        inner = d[1]
        if any(x[0] == "call" and ("try_from" in str(x[1]) or "try_into" in str(x[1])) for x in walk(inner)):
            return "scale"
    return "unknown:" + show(d)[:60]
