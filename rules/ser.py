"""C09: SER-PRIM, SER-NZ, SER-MK, SER-SYM, SER-THREAD, SER-VEC, SER-TOP (DESIGN §3/C09)."""
from . import core, loops, cond
from .core import Callee, walk, show
from .view import FnView, pnorm, OPTION
from .pat import m, ANY, V, K, Par, C, F, E, P, B, Phi, OneOf, members, It
from .da import Sites, endswith, anykey
from .search import switches_on

SER = "serializer::Serializable"
SERV = "serializer::SerializableVec"
W, R_, SZ = "serialize_to_vec", "deserialize_from_slice", "serialized_bytes"


def pat_strip(t):
    from .pat import strip_iter, iter_origin
    return strip_iter(iter_origin(t))


def order_calls(body, calls):
    """sort call sites of a straight-line function by dominance"""
    def key(s):
        return len(body.dominators().get(s["bb"], ()))
    return sorted(calls, key=key)


def self_ty(c):
    return c.targ_s(0) if c.trait in (SER, SERV) else None


def ser_impls(lib):
    out = {}
    for i in lib.impls:
        if i["trait"] in (SER, SERV):
            out[(i["trait"], i["self_ty"])] = i
    return out


def impl_bodies(lib, trait, sty):
    r = {}
    for b in lib.bodies.values():
        if b.j.get("impl_trait") == trait and b.j.get("impl_self_ty") == sty and not b.is_closure:
            r[b.name] = b
    return r


PRIMS = {"u8": 1, "u16": 2, "u32": 4, "u64": 8, "u128": 16, "usize": None, "i8": 1, "i16": 2, "i32": 4, "i64": 8, "i128": 16, "isize": None}


def rule_ser(ctx, R):
    lib = ctx.lib
    impls = ser_impls(lib)
    n_ser = sum(1 for k in impls if k[0] == SER)
    n_serv = sum(1 for k in impls if k[0] == SERV)
    ctx.note("serializable_impls", n_ser)
    ctx.note("serializable_vec_impls", n_serv)
    if n_ser < 19 or n_serv < 2:
        ctx.bad("SER-INV", "serializer", "impl-floor", "", "expected >= 19 Serializable and >= 2 SerializableVec impls (counted by hand); found %d / %d"
                % (n_ser, n_serv))
    ptr_bytes = lib.j["pointer_bits"] // 8
    for (trait, sty), imp in sorted(impls.items()):
        bodies = impl_bodies(lib, trait, sty)
        if set(bodies) != {W, R_, SZ}:
            ctx.missing("SER-SYM", "%s impl for %s: methods %s" % (trait, sty, sorted(bodies)))
            continue
        if sty in PRIMS:
            _prim(ctx, lib, sty, bodies, PRIMS[sty] or ptr_bytes)
        elif sty == "core::option::Option<core::num::NonZero<u32>>":
            _nz(ctx, lib, sty, bodies)
        elif sty == "MatchKind":
            _mk(ctx, lib, sty, bodies)
        elif sty == "Empty":
            _empty(ctx, lib, sty, bodies)
        elif sty.startswith("alloc::vec::Vec<"):
            _vec(ctx, lib, sty, bodies)
        else:
            _composite(ctx, lib, trait, sty, imp, bodies)
    # primitives required by the property: every built-in value type incl. 128-bit and Empty
    for t in ("u8", "u16", "u32", "u64", "u128", "usize", "i8", "i16", "i32", "i64", "i128", "isize", "Empty"):
        ctx.check((SER, t) in impls, "SER-INV", "serializer", "value-type:" + t, "", "Serializable must be implemented for " + t)
    for v in R.variants():
        if v.ok:
            _top(ctx, lib, v)


def _const_ret(lib, b):
    t = pnorm(FnView(lib, b).root.ret())
    return t[1] if t[0] == "const" and isinstance(t[1], int) else None


def _prim(ctx, lib, sty, bodies, width):
    wb, rb, sb = bodies[W], bodies[R_], bodies[SZ]
    S = Sites(lib, wb)
    ext = S.keyed(lambda k: k == "alloc::vec::Vec::extend_from_slice")
    ok = len(ext) == 1 and m(Par(2), ext[0]["args"][0]) and m(C(endswith("::to_le_bytes"), Par(1)), ext[0]["args"][1])
    le = S.keyed(lambda k: k.endswith("::to_le_bytes"))
    ok = ok and len(le) == 1 and le[0]["c"].self_ty == sty and len(S.calls) == 2
    ctx.check(ok, "SER-PRIM", wb, "writer-le:" + sty, wb.span, "writer must append self.to_le_bytes() (of %s) and nothing else" % sty)
    ret = pnorm(FnView(lib, rb).root.ret())
    n = V("n")
    env = {}
    head = E(Par(1), ("agg", "core::ops::RangeTo", "RangeTo", (("end", n),)))

    def head_bytes(t, env):
        # src[..N] converted to an array (try_into().unwrap() is value preserving), or a zeroed [u8; N] buffer completely
        # overwritten by copy_from_slice(&src[..N]) (equal lengths, or it panics like the range index does)
        if m(head, t, env):
            return True
        if t[0] == "phi":
            ms = [x for x in t[1] if x[0] != "loop"]
            fills = [x for x in ms if x[0] == "mutby" and str(x[1]).split("@")[0].endswith("::copy_from_slice") and len(x[2]) == 2]
            inits = [x for x in ms if x[0] in ("repeat", "array")]
            return len(ms) == 2 and len(fills) == 1 and len(inits) == 1 and m(head, fills[0][2][1], env)
        return False
    pat = ("tuple", (C(endswith("::from_le_bytes"), head_bytes),
                     E(Par(1), ("agg", "core::ops::RangeFrom", "RangeFrom", (("start", n),)))))
    okr = m(pat, ret, env)
    RS = Sites(lib, rb)
    fl = RS.keyed(lambda k: k.endswith("::from_le_bytes"))
    okr = okr and len(fl) == 1 and fl[0]["c"].self_ty == sty
    nval = env.get("n")
    nval = nval[1] if nval and nval[0] == "const" else None
    ctx.check(okr, "SER-PRIM", rb, "reader-le:" + sty, rb.span,
              "reader must return (%s::from_le_bytes(src[..N]), src[N..]) with one N; returns %s" % (sty, show(ret)), show(ret))
    size = _const_ret(lib, sb)
    ctx.check(okr and nval == width and size == width, "SER-PRIM", rb, "width:" + sty, rb.span,
              "range end, remainder start, serialized_bytes and the type's size must all be %d; found N=%s serialized_bytes=%s"
              % (width, nval, size))


def _nz(ctx, lib, sty, bodies):
    wb, rb, sb = bodies[W], bodies[R_], bodies[SZ]
    S = Sites(lib, wb)
    ws = [s for s in S.calls if s["name"] == W]
    nsw = len([1 for bi in wb.live_blocks() if wb.blocks[bi]["term"]["k"] == "switch"])
    ok = len(ws) == 1 and self_ty(ws[0]["c"]) == "u32" and m(Par(2), ws[0]["args"][1]) and (
        m(C("core::option::Option::map_or", Par(1), K(0), ("fn", "core::num::NonZero::get")), ws[0]["args"][0]) or
        # explicit match: 0 for None, the integer inside for Some (NonZero::get is value preserving) — one two-way branch only
        (m(Phi(K(0), P(Par(1)), req=[0, 1]), ws[0]["args"][0]) and nsw == 1))
    ctx.check(ok, "SER-NZ", wb, "writer", wb.span, "Option<NonZeroU32> must be written as the u32 `map_or(0, get)` (0 for None, the value for Some); found %s"
              % [show(s["args"][0]) for s in ws])
    RS = Sites(lib, rb)
    rs = [s for s in RS.calls if s["name"] == R_]
    ret = pnorm(FnView(lib, rb).root.ret())
    okr = len(rs) == 1 and self_ty(rs[0]["c"]) == "u32" and m(Par(1), rs[0]["args"][0])
    if okr:
        call = C(anykey, ANY, site=(rb.path, rs[0]["bb"]))
        okr = m(("tuple", (C("core::num::NonZero::new", F(call, "0", "(tuple)")), F(call, "1", "(tuple)"))), ret)
    ctx.check(okr, "SER-NZ", rb, "reader", rb.span, "reader must be (NonZeroU32::new(u32 read), remainder of that read); returns %s" % show(ret))
    SS = Sites(lib, sb)
    ss = [s for s in SS.calls if s["name"] == SZ]
    ctx.check(len(ss) == 1 and self_ty(ss[0]["c"]) == "u32" and len(SS.calls) == 1, "SER-NZ", sb, "size", sb.span, "size must be u32's")


def _switch_table(lib, body):
    """a function that is one switch on its parameter returning constants/unit variants:
    {value: result} plus 'otherwise'"""
    tbl = {}
    t0 = body.blocks[0]["term"]
    if t0["k"] != "switch":
        # may start with a discriminant read
        pass
    for bi in sorted(body.live_blocks()):
        t = body.blocks[bi]["term"]
        if t["k"] == "switch":
            def result(tb):
                for st in body.blocks[tb]["stmts"]:
                    if st["k"] == "assign" and st["lhs"]["local"] == 0:
                        rv = st["rv"]
                        if rv["k"] == "aggregate":
                            return rv["variant"]
                        if rv["k"] == "use" and rv["op"]["k"] == "const":
                            return rv["op"].get("bits")
                return None
            for val, tb in t["targets"]:
                tbl[val] = result(tb)
            tbl["otherwise"] = result(t["otherwise"]) if body.blocks[t["otherwise"]]["term"]["k"] != "unreachable" else None
            return tbl
    return None


def _mk(ctx, lib, sty, bodies):
    wb, rb, sb = bodies[W], bodies[R_], bodies[SZ]
    adt = lib.adts.get("MatchKind")
    variants = {v["name"]: v["discr"] for v in adt["variants"]}
    to_u8 = from_u8 = None
    for b in lib.bodies.values():
        if b.j.get("impl_trait") == "core::convert::From" and b.name == "from":
            if b.j.get("impl_self_ty") == "u8" and "MatchKind" in b.path:
                to_u8 = b
            if b.j.get("impl_self_ty") == "MatchKind":
                from_u8 = b
    if not to_u8 or not from_u8:
        ctx.missing("SER-MK", "From<MatchKind> for u8 / From<u8> for MatchKind")
        return
    # the two conversion tables, by constant folding each function on every abstract input (3 variants / 256 bytes):
    # independent of the source form (match, if-chain, `as u8` on the repr(u8) enum, lookup by comparison)
    enc = {name: cond.fold_fn(to_u8, ("variant", name, d), lib=lib) for name, d in variants.items()}
    dec = {byte: cond.fold_fn(from_u8, byte, lib=lib) for byte in range(256)}
    if any(not isinstance(x, int) for x in enc.values()) or any(not (isinstance(x, tuple) and x[0] == "variant") for x in dec.values()):
        ctx.bad("SER-MK", to_u8, "tables", to_u8.span, "could not extract the MatchKind conversion tables (to_u8 %s)" % enc)
        return
    ctx.check(len(set(enc.values())) == len(enc), "SER-MK", to_u8, "to_u8-injective", to_u8.span,
              "MatchKind -> u8 must be injective; table %s" % enc)
    for name, byte in enc.items():
        back = dec[byte][1]
        ctx.check(back == name, "SER-MK", from_u8, "roundtrip:" + name, from_u8.span,
                  "from_u8(to_u8(%s)) must be %s; to_u8 gives %s, from_u8 gives %s" % (name, name, byte, back))
    # writer pushes exactly u8::from(*self); reader consumes src[0], returns src[1..]
    S = Sites(lib, wb)
    pushes = S.keyed(lambda k: k == "alloc::vec::Vec::push")
    # u8::from(*self) or (*self).into() — the blanket Into<u8> for MatchKind is that same From impl
    froms = [s for s in S.calls if s["c"].body_path == to_u8.path or
             (core.callee_base(s["key"]) == "core::convert::Into::into" and s["c"].targ_s(0) == "MatchKind" and s["c"].targ_s(1) == "u8")]
    ok = len(pushes) == 1 and len(froms) == 1 and m(Par(2), pushes[0]["args"][0]) and len(S.calls) == 2 and \
        m(Par(1), froms[0]["args"][0]) and m(Par(1), pushes[0]["args"][1])
    if not ok and len(froms) == 1 and not pushes:
        # ... or through u8's own Serializable impl (one byte: SER-PRIM width:u8)
        w8 = [s for s in S.calls if s["name"] == W and self_ty(s["c"]) == "u8"]
        ok = len(w8) == 1 and len(S.calls) == 2 and m(Par(1), froms[0]["args"][0]) and m(Par(1), w8[0]["args"][0]) and m(Par(2), w8[0]["args"][1])
    if not ok and len(pushes) == 1 and m(Par(2), pushes[0]["args"][0]):
        # ... or `*self as u8`: the byte is the variant's discriminant, which must then BE the conversion table (variant by variant)
        pv = pushes[0]["args"][1]
        while pv[0] == "cast":
            pv = pv[1]
        if pv[0] == "discr" and m(Par(1), pv[1]):
            dtab = {v_["name"]: v_["discr"] for v_ in lib.adts["MatchKind"]["variants"]}
            others = [s_ for s_ in S.calls if s_ is not pushes[0] and not s_["key"].startswith("core::panicking::") and s_["c"].body_path != to_u8.path
                      and core.callee_base(s_["key"]) not in ("core::convert::From::from", "core::convert::Into::into")]
            ok = dtab == enc and not others
    ctx.check(ok, "SER-MK", wb, "writer-one-byte", wb.span, "writer must push exactly u8::from(*self)")
    RS = Sites(lib, rb)
    def same_decoder(c):
        # a crate-local byte -> MatchKind function with the same table as From<u8> (e.g. the helper From<u8> forwards to)
        cb = lib.bodies.get(c.body_path) if c.body_path else None
        if cb is None or cb.arg_count != 1:
            return False
        return all(cond.fold_fn(cb, byte, lib=lib) == dec[byte] for byte in range(256))
    froms = [s for s in RS.calls if s["c"].body_path == from_u8.path or
             (core.callee_base(s["key"]) == "core::convert::Into::into" and s["c"].targ_s(0) == "u8" and s["c"].targ_s(1) == "MatchKind") or
             (s["c"].local and s["c"].adt == "MatchKind" and same_decoder(s["c"]))]
    ret = pnorm(FnView(lib, rb).root.ret())
    okr = len(froms) == 1 and m(E(Par(1), K(0)), froms[0]["args"][0]) and \
        m(("tuple", (OneOf(E(Par(1), K(0)), C(anykey, E(Par(1), K(0)), site=(rb.path, froms[0]["bb"]))),
                     E(Par(1), ("agg", "core::ops::RangeFrom", "RangeFrom", (("start", K(1)),))))), ret)
    if not okr and len(froms) == 1:
        r8 = [s for s in RS.calls if s["name"] == R_ and self_ty(s["c"]) == "u8"]
        if len(r8) == 1 and m(Par(1), r8[0]["args"][0]):
            c8 = C(anykey, ANY, site=(rb.path, r8[0]["bb"]))
            okr = m(F(c8, "0", "(tuple)"), froms[0]["args"][0]) and m(("tuple", (F(c8, "0", "(tuple)"), F(c8, "1", "(tuple)"))), ret)
    ctx.check(okr, "SER-MK", rb, "reader-one-byte", rb.span, "reader must decode src[0] and return src[1..]; returns %s" % show(ret))
    oksz = _const_ret(lib, sb) == 1
    if not oksz:
        SSz = Sites(lib, sb)
        oksz = len(SSz.calls) == 1 and SSz.calls[0]["name"] == SZ and self_ty(SSz.calls[0]["c"]) == "u8" and \
            m(C(anykey, site=(sb.path, SSz.calls[0]["bb"])), pnorm(FnView(lib, sb).root.ret()))
    ctx.check(oksz, "SER-MK", sb, "size-one", sb.span, "MatchKind occupies one byte")


def _empty(ctx, lib, sty, bodies):
    wb, rb, sb = bodies[W], bodies[R_], bodies[SZ]
    ctx.check(not Sites(lib, wb).calls, "SER-SYM", wb, "empty-writes-nothing", wb.span, "Empty must write nothing")
    ret = pnorm(FnView(lib, rb).root.ret())
    ctx.check(ret[0] == "tuple" and m(Par(1), ret[1][1]), "SER-SYM", rb, "empty-reads-nothing", rb.span,
              "Empty must consume nothing (return the slice unchanged); returns %s" % show(ret))
    ctx.check(_const_ret(lib, sb) == 0, "SER-SYM", sb, "empty-size-zero", sb.span, "Empty occupies zero bytes")


def _vec(ctx, lib, sty, bodies):
    wb, rb, sb = bodies[W], bodies[R_], bodies[SZ]
    S = Sites(lib, wb)
    ws = [s for s in S.calls if s["name"] == W]
    pre = [s for s in ws if m(C("alloc::vec::Vec::len", Par(1)), s["args"][0])]
    elw = [s for s in ws if s not in pre]
    ok = len(pre) == 1 and pre[0]["vw"] is S.root and self_ty(pre[0]["c"]) == "u32" and m(Par(2), pre[0]["args"][1])
    ctx.check(ok, "SER-VEC", wb, "length-prefix", wb.span, "a Vec is written as u32(len) first")
    # every element in order: for_each / for loop over the whole vector (item of iter(self) / into_iter(&self))
    drivers = [s for s in S.calls if s["vw"] is S.root and core.callee_base(s["key"]) in ("core::iter::Iterator::for_each", "core::iter::Iterator::next")]
    ok2 = len(elw) == 1 and len(drivers) == 1 and m(It(OneOf(Par(1), C("core::slice::iter", Par(1)))), elw[0]["args"][0]) and \
        m(Par(2), elw[0]["args"][1]) and m(Par(1), pat_strip(drivers[0]["args"][0]))
    if ok and ok2:
        ok2 = wb.dominates(pre[0]["bb"], drivers[0]["bb"])
    ctx.check(ok2, "SER-VEC", wb, "elements-in-order", wb.span, "then every element, in order, into the same buffer")
    # the image consists of trait writes only: nothing else touches the buffer, and no path returns without running the element loop
    NEUTRAL = ("alloc::vec::Vec::reserve", "alloc::vec::Vec::reserve_exact", "alloc::vec::Vec::len", "alloc::vec::Vec::capacity",
               "alloc::vec::Vec::is_empty")       # calls that cannot change the buffer's contents
    other = [s for s in S.calls if s not in ws and any(m(Par(2), a) for a in s["args"]) and core.callee_base(s["key"]) not in NEUTRAL]
    ctx.check(not other, "SER-VEC", wb, "only-trait-writes", wb.loc(other[0]["bb"]) if other else wb.span,
              "the buffer must be filled only through Serializable::serialize_to_vec (a raw memory image depends on layout, padding and "
              "endianness); also passed to %s" % sorted({s["key"] for s in other}))
    if ok and ok2:
        # (an early return for the empty vector is the only shortcut that writes the same image)
        def empty(t):
            return t[0] == "call" and isinstance(t[1], str) and core.callee_base(t[1]).endswith("::is_empty") and len(t[2]) == 1 and m(Par(1), pat_strip(t[2][0]))

        def len0(t):
            return t[0] == "bin" and t[1] == "Eq" and any(m(C("alloc::vec::Vec::len", Par(1)), x) for x in (t[2], t[3])) and \
                any(x[0] == "const" and x[1] == 0 for x in (t[2], t[3]))
        free = cond.explore(S.root, [0], [(empty, False), (len0, False)], stop=[drivers[0]["bb"]])
        bad = [r for r in wb.return_blocks() if free is None or r in free]
        ctx.check(not bad, "SER-VEC", wb, "no-path-skips-elements", wb.loc(bad[0]) if bad else wb.span,
                  "every path through the Vec writer of a non-empty vector runs the element loop")
    RS = Sites(lib, rb)
    rs = order_calls(rb, [s for s in RS.calls if s["name"] == R_])
    okr = len(rs) == 2 and self_ty(rs[0]["c"]) == "u32" and m(Par(1), rs[0]["args"][0])
    if okr:
        first = C(anykey, ANY, site=(rb.path, rs[0]["bb"]))
        el = C(anykey, ANY, site=(rb.path, rs[1]["bb"]))
        # loop bound: 0..len read
        # loop bound: the element read runs exactly n = (the u32 read) times, in any loop form
        n = loops.trip_count(RS, rs[1]["bb"])
        okr = n is not None and m(F(first, "0", "(tuple)"), n)
        # threading: element reads start at first.1 and continue at their own remainder
        okr = okr and m(Phi(F(first, "1", "(tuple)"), F(el, "1", "(tuple)"), req=[0, 1]), rs[1]["args"][0])
        pushes = RS.keyed(lambda k: k == "alloc::vec::Vec::push")
        okr = okr and len(pushes) == 1 and m(F(el, "0", "(tuple)"), pushes[0]["args"][1]) and rb.in_cycle(pushes[0]["bb"]) and rb.in_cycle(rs[1]["bb"])
        ret = pnorm(FnView(lib, rb).root.ret())
        rets_ = list(members(ret))
        # an early return of (Vec::new(), remainder) is the same result when — and only when — the count read is 0
        zero_n = lambda t: t[0] == "bin" and t[1] == "Eq" and any(m(F(first, "0", "(tuple)"), x) for x in (t[2], t[3])) and \
            any(x[0] == "const" and x[1] == 0 for x in (t[2], t[3]))
        main_ = [x for x in rets_ if x[0] == "tuple" and core.same(x[1][0], pushes[0]["args"][0])]
        early_ = [x for x in rets_ if x not in main_]
        for x in early_:
            oke = x[0] == "tuple" and x[1][0][0] == "call" and isinstance(x[1][0][1], str) and core.callee_base(x[1][0][1]) == "alloc::vec::Vec::new" and \
                m(Phi(F(first, "1", "(tuple)"), F(el, "1", "(tuple)")), x[1][1])
            if oke:
                v_nz = cond.explore(RS.root, [0], [(zero_n, False)])
                oke = v_nz is not None and x[1][0][3][1] not in v_nz and not rb.in_cycle(x[1][0][3][1]) and \
                    rs[1]["bb"] not in rb.reach(x[1][0][3][1])
            okr = okr and oke
        okr = okr and len(main_) == 1 and m(Phi(F(first, "1", "(tuple)"), F(el, "1", "(tuple)"), req=[0, 1]), main_[0][1][1])
    ctx.check(okr, "SER-VEC", rb, "reader", rb.span,
              "reader must read a u32 n, then n elements each from the previous remainder, pushing in order, and return the last remainder")
    t = pnorm(FnView(lib, sb).root.ret())
    oks = m(B("Add", C(endswith(SZ)), B("Mul", C(endswith(SZ)), C("alloc::vec::Vec::len", Par(1)))), t)
    ctx.check(oks, "SER-VEC", sb, "size", sb.span, "size must be u32 + elem size * len; found %s" % show(t))


def _field_seq_writer(ctx, lib, b, adt, dst_ok, rule, label):
    """[(field name, trait, Self type)] in order"""
    S = Sites(lib, b)
    ws = order_calls(b, [s for s in S.calls if s["name"] == W and s["c"].trait in (SER, SERV)])
    seq = []
    ok = True
    for s in ws:
        a0 = s["args"][0]
        if not (a0[0] == "field" and a0[2] == adt and a0[1][0] == "param" and a0[1][1] == 1):
            ok = False
            seq.append(("?" + show(a0), s["c"].trait, self_ty(s["c"])))
            continue
        if not dst_ok(s["args"][1]):
            ok = False
        seq.append((a0[3], s["c"].trait, self_ty(s["c"])))
    # straight line: every write on every path
    rets = b.return_blocks()
    for s in ws:
        if not all(b.dominates(s["bb"], r) for r in rets):
            ok = False
    ctx.check(ok, rule, b, "writer-shape:" + label, b.span,
              "every write must be `self.<field>.serialize_to_vec(dst)` on the same buffer, unconditionally; sequence %s" % seq)
    return seq


def _field_seq_reader(ctx, lib, b, adt, rule, label, src_param=1):
    S = Sites(lib, b)
    rs = order_calls(b, [s for s in S.calls if s["name"] == R_ and s["c"].trait in (SER, SERV)])
    ret = pnorm(FnView(lib, b).root.ret())
    seq = []
    ok = ret[0] == "tuple" and len(ret[1]) == 2 and ret[1][0][0] == "agg" and ret[1][0][1] == adt
    prev = None
    thread_ok = True
    for k, s in enumerate(rs):
        a0 = s["args"][0]
        if k == 0:
            if not m(Par(src_param), a0):
                thread_ok = False
        else:
            if not m(F(C(anykey, ANY, site=(b.path, prev["bb"])), "1", "(tuple)"), a0):
                thread_ok = False
        prev = s
    if ok:
        fields = dict(ret[1][0][3])
        by_site = {}
        for fname, t in fields.items():
            if t[0] == "field" and t[3] == "0" and t[1][0] == "call":
                by_site[t[1][3]] = fname
            else:
                by_site[("?", fname)] = fname
        for s in rs:
            seq.append((by_site.get((b.path, s["bb"]), "?"), s["c"].trait, self_ty(s["c"])))
        if prev is not None:
            if not m(F(C(anykey, ANY, site=(b.path, prev["bb"])), "1", "(tuple)"), ret[1][1]):
                thread_ok = False
        elif not m(Par(src_param), ret[1][1]):
            thread_ok = False
    ctx.check(ok, rule, b, "reader-shape:" + label, b.span,
              "reader must return (literal of %s built from the values read, remainder); returns %s" % (adt, show(ret)))
    ctx.check(thread_ok, "SER-THREAD", b, "remainder-threading:" + label, b.span,
              "the k-th read must start at the remainder of the (k-1)-th, the first at the parameter, and the last remainder is returned")
    return seq


def _composite(ctx, lib, trait, sty, imp, bodies):
    tj = imp["self_tyj"]
    adt = tj.get("path")
    if tj["k"] != "adt" or adt not in lib.adts:
        # an impl for a shape the tables do not model (e.g. an array) cannot be judged either way: it is listed in the
        # evidence, not reported (a correct new impl must not raise an alarm)
        ctx.info.setdefault("unmodelled_serializable_impls", []).append(sty)
        return
    label = adt.split("::")[-1] if "::" in adt else adt
    label = adt
    wseq = _field_seq_writer(ctx, lib, bodies[W], adt, lambda t: m(Par(2), t), "SER-SYM", label)
    rseq = _field_seq_reader(ctx, lib, bodies[R_], adt, "SER-SYM", label)
    fields = [f["name"] for f in lib.adts[adt]["variants"][0]["fields"]]
    ctx.check(wseq == rseq, "SER-SYM", bodies[W], "writer-reader-agree:" + label, bodies[W].span,
              "writer and reader must use the same (field, type) sequence; writer %s reader %s" % (wseq, rseq))
    ctx.check(sorted(f for f, _, _ in wseq) == sorted(fields), "SER-SYM", bodies[W], "all-fields-once:" + label, bodies[W].span,
              "every field of %s exactly once; struct has %s, image has %s" % (adt, fields, [f for f, _, _ in wseq]))
    # field types agree with the impl used
    for fname, tr, st in wseq:
        fd = lib.adt_field(adt, fname)
        if fd is not None and st is not None:
            ctx.check(fd["ty"] == st, "SER-SYM", bodies[W], "field-type:%s.%s" % (label, fname), bodies[W].span,
                      "field %s: %s is written through the impl for %s" % (fname, fd["ty"], st))
    # size = sum of the same types
    SS = Sites(lib, bodies[SZ])
    stys = sorted((s["c"].trait, self_ty(s["c"])) for s in SS.calls if s["name"] == SZ)
    ctx.check(stys == sorted((tr, st) for _, tr, st in wseq), "SER-SYM", bodies[SZ], "size-sums-fields:" + label, bodies[SZ].span,
              "serialized_bytes must sum the widths of exactly the written types; found %s vs %s" % (stys, sorted((tr, st) for _, tr, st in wseq)))
    t = pnorm(FnView(lib, bodies[SZ]).root.ret())
    only_add = all(x[0] != "bin" or x[1] == "Add" for x in walk(t)) and not any(x[0] == "const" for x in walk(t))
    ctx.check(only_add, "SER-SYM", bodies[SZ], "size-is-plain-sum:" + label, bodies[SZ].span, "serialized_bytes must be a plain sum; found %s" % show(t))


def _top(ctx, lib, v):
    A = v.A
    ser = lib.one_body(adt=A, name="serialize")
    de = lib.one_body(adt=A, name="deserialize_unchecked")
    if not ser or not de:
        ctx.missing("SER-TOP", "%s::serialize / deserialize_unchecked" % A)
        return
    S = Sites(lib, ser)
    ret = pnorm(S.root.ret())
    wseq = _field_seq_writer(ctx, lib, ser, A, lambda t: core.same(t, ret), "SER-TOP", A)
    rseq = _field_seq_reader(ctx, lib, de, A, "SER-TOP", A)
    fields = [f["name"] for f in lib.adts[A]["variants"][0]["fields"]]
    ctx.check(wseq == rseq, "SER-TOP", ser, "writer-reader-agree:" + v.tag, ser.span,
              "serialize and deserialize_unchecked must use the same (field, type) sequence; writer %s reader %s" % (wseq, rseq))
    ctx.check(sorted(f for f, _, _ in wseq) == sorted(fields), "SER-TOP", ser, "all-fields-once:" + v.tag, ser.span,
              "every field of the automaton exactly once; struct has %s, image has %s" % (fields, [f for f, _, _ in wseq]))
    for fname, tr, st in wseq:
        fd = lib.adt_field(A, fname)
        if fd is not None and st is not None:
            ctx.check(fd["ty"] == st, "SER-TOP", ser, "field-type:%s.%s" % (v.tag, fname), ser.span,
                      "field %s: %s is written through the impl for %s" % (fname, fd["ty"], st))
    # the buffer returned is the one written to, created empty
    cdefs = []
    if ret[0] == "var":
        cdefs = [pnorm(t) for k, t, bb in S.root.T.container_defs(ret[2]) if k == "call"]
    if ret[0] == "call":
        cdefs = [ret]
    ctx.check(len(cdefs) == 1 and core.callee_base(cdefs[0][1]) in ("alloc::vec::Vec::with_capacity", "alloc::vec::Vec::new"),
              "SER-TOP", ser, "fresh-buffer:" + v.tag, ser.span, "serialize must return the freshly created buffer it wrote into")
    # safety: deserialize_unchecked is an unsafe fn
    f = lib.fns.get(de.path)
    ctx.check(f is not None and f["unsafe"], "SAFE-API", de, "deserialize-unsafe:" + v.tag, de.span,
              "deserialize_unchecked performs no validation and must stay an `unsafe fn`")
