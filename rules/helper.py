"""Build-helper rule groups (C11, also C01/C07): KNOB-CONF, KNOB-EVICT, H-RANGE, H-OFFSET, H-ACCESS, H-PUSH,
H-USE, H-VAC, H-ITEM, H-UNUSED.  The helper is the ring buffer of per-slot list items that tracks
vacant slots / used bases for the last N blocks; these rules pin down what each of its small
functions must compute (quantity typing: element index vs block number vs ring offset)."""
from . import core, cond
from .core import Callee, walk, show
from .view import FnView, pnorm, OPTION, mk_payload
from .pat import m, ANY, V, K, Par, C, F, E, P, B, Phi, members
from .da import Sites, endswith, anykey
from .search import switches_on, opt_arms, bool_arms, is_const

H = "build_helper::BuildHelper"
LI = "build_helper::ListItem"
VI = "build_helper::VacantIter"


def hcall(name, *args):
    return C(H + "::" + name, *args)


def _ret(lib, b):
    fv = FnView(lib, b)
    return pnorm(fv.resolve(fv.root.ret())), fv


def rule_helper(ctx, R):
    lib = ctx.lib
    if H not in lib.adts or LI not in lib.adts:
        ctx.missing("H-ITEM", "build helper types")
        return
    fn = {}
    for b in lib.find_bodies(adt=H):
        fn[b.name] = b
    need = ["new", "num_elements", "active_index_range", "active_block_range", "vacant_iter", "unused_base_in_block", "is_used_base",
            "is_used_index", "use_base", "use_index", "push_block", "dropped_block", "capacity", "get_ref", "get_mut", "offset", "reset"]
    # fail closed on the *public* helper API the builders use; private helpers are located by role below
    for n in ("new", "num_elements", "active_block_range", "vacant_iter", "unused_base_in_block", "is_used_base", "is_used_index",
              "use_base", "use_index", "push_block", "dropped_block"):
        if n not in fn:
            ctx.missing("H-ITEM", "BuildHelper::" + n)
            return
    # Rules are phrased on the NORMAL FORM (core.normalise_crate): the helper's private accessors (capacity / offset / get_ref /
    # get_mut / reset — whatever they are called, or none at all) are inlined, so a slot access is always
    #     self.items[idx % self.items.len()]
    # behind an inlined `assert!(self.active_index_range().contains(&idx))`.
    cap = C("alloc::vec::Vec::len", F(Par(1), "items"))

    def item(idx):
        return E(F(Par(1), "items"), B("Rem", idx, cap))

    _list_item(ctx, lib)
    nel = C(H + "::num_elements", Par(1))

    # ---- H-RANGE
    t, _ = _ret(lib, fn["num_elements"])
    ctx.check(m(B("Mul", F(Par(1), "num_blocks"), F(Par(1), "block_len")), t), "H-RANGE", fn["num_elements"], "num_elements", fn["num_elements"].span,
              "num_elements = num_blocks * block_len; found %s" % show(t), show(t))
    t, _ = _ret(lib, fn["active_block_range"])
    nb_, nf_ = F(Par(1), "num_blocks"), F(Par(1), "num_free_blocks")
    ok = m(("agg", "core::ops::Range", "Range", (("start", C(endswith("saturating_sub"), nb_, nf_)), ("end", nb_))), t)
    if not ok and t[0] == "agg" and t[1] == "core::ops::Range":
        # explicit saturating subtraction: if nb > nf { nb - nf } else { 0 }  (any comparison form), decided under both assumptions
        f_ = dict(t[3])
        ab = fn["active_block_range"]
        AS = Sites(lib, ab)
        gt = lambda x: cond.le_terms(x, lambda a: m(nb_, a), lambda b_: m(nf_, b_))     # nb <= nf
        # the start operand of the Range literal
        lits = [st for bi, si, st in ab.stmts() if st["k"] == "assign" and st["rv"]["k"] == "aggregate" and st["rv"].get("adt", "").endswith("ops::Range")]
        if len(lits) == 1 and m(nb_, f_.get("end")):
            sop = lits[0]["rv"]["ops"][0]
            v_le = cond.values_under(AS.root, [0], cond.prop_atoms(gt, True), sop)
            v_gt = cond.values_under(AS.root, [0], cond.prop_atoms(gt, False), sop)
            ok = bool(v_le) and all(is_const(x, 0) for x in v_le) and bool(v_gt) and all(m(B("Sub", nb_, nf_), x) for x in v_gt)
    ctx.check(ok, "H-RANGE", fn["active_block_range"], "active-block-range", fn["active_block_range"].span,
              "active blocks = num_blocks.saturating_sub(num_free_blocks)..num_blocks; found %s" % show(t), show(t))
    if "active_index_range" in fn:
        t, _ = _ret(lib, fn["active_index_range"])
        abr = C(H + "::active_block_range", Par(1))
        # the block range through its accessor, or written out again (the same two expressions the accessor was checked for)
        from .pat import OneOf as OneOf_
        ab_start = OneOf_(F(abr, "start"), C(endswith("saturating_sub"), nb_, nf_))
        ab_end = OneOf_(F(abr, "end"), nb_)
        ok = m(("agg", "core::ops::Range", "Range", (("start", B("Mul", ab_start, F(Par(1), "block_len"))),
                                                       ("end", B("Mul", ab_end, F(Par(1), "block_len"))))), t)
        ctx.check(ok, "H-RANGE", fn["active_index_range"], "active-index-range", fn["active_index_range"].span,
                  "active indices = active blocks scaled by block_len on both ends; found %s" % show(t), show(t))
    # ---- H-OFFSET / H-ACCESS: every access to self.items, anywhere in the helper, is items[idx % items.len()] behind the
    #      active-range assertion on that same idx
    n = 0
    for b in list(fn.values()) + lib.find_bodies(adt=VI, trait="core::iter::Iterator", name="next"):
        S = Sites(lib, b)
        conts = [s for s in S.keyed(lambda k: k.endswith("Range::contains"))]
        for s in S.calls:
            if core.callee_base(s["key"]) in ("core::ops::Index::index", "core::ops::IndexMut::index_mut") and \
                    s["args"][0][0] == "field" and s["args"][0][3] == "items" and s["args"][0][2] == H:
                n += 1
                ix = s["args"][1]
                env = {}
                okm = m(B("Rem", V("idx"), C("alloc::vec::Vec::len", F(ANY, "items", H))), ix, env)
                ctx.check(okm, "H-OFFSET", b, "idx-mod-capacity:" + b.name, b.loc(s["bb"]),
                          "a slot access must be self.items[idx %% self.items.len()] (ring offset of an element index); found %s" % show(ix), show(ix))
                if not okm:
                    continue
                idx = env["idx"]
                g = False
                for c_ in conts:
                    if core.same(c_["args"][1], idx) and m(C(H + "::active_index_range", ANY), c_["args"][0]):
                        sw = switches_on(S.root, lambda d: d[0] == "call" and d[3] == (b.path, c_["bb"]))
                        for sbi, stj, d in sw:
                            tt, ff = bool_arms(stj)
                            if b.edge_guards((sbi, tt), s["bb"]) and ff is not None and all(r not in b.reach(ff) for r in b.return_blocks()):
                                g = True
                ctx.check(g, "H-OFFSET", b, "active-range-assert:" + b.name, b.loc(s["bb"]),
                          "every slot access asserts that its index lies in the active range (an evicted or future slot must never be "
                          "touched silently); access at %s" % show(idx)[:120])
    ctx.check(n >= 10, "H-ACCESS", H, "items-access-sites", "", "expected >= 10 slot access sites in the helper; saw %d" % n)
    # items is touched nowhere outside the helper
    for b in lib.bodies.values():
        if b.j.get("impl_adt") in (H, VI) or b.is_closure and (b.j.get("impl_adt") in (H, VI)):
            continue
        for bi, si, st in b.stmts():
            if st["k"] == "assign":
                for pl in _read_places(st) + [st["lhs"]]:
                    if any(pe["k"] == "field" and pe.get("adt") == H and pe["name"] == "items" for pe in pl["proj"]):
                        ctx.bad("H-ACCESS", b, "items-outside-helper", b.loc(bi, si), "self.items is accessed outside the helper")
    # ---- KNOB-CONF / H-NEW
    nb = fn["new"]
    S = Sites(lib, nb)
    lits = [pnorm(S.root.T.rvalue(st["rv"])) for bi, si, st in nb.stmts() if st["k"] == "assign" and st["rv"]["k"] == "aggregate" and st["rv"].get("adt") == H]
    ok = len(lits) == 1
    if ok:
        f = dict(lits[0][3])
        capv = B("Mul", Par(1), Par(2))      # (the payload of checked_mul is the product)
        ok = m(Par(1), f.get("block_len")) and m(Par(2), f.get("num_free_blocks")) and is_const(f.get("num_blocks"), 0) and \
            f.get("head_idx", ("x",))[0] == "agg" and f["head_idx"][2] == "None" and \
            m(C("alloc::vec::from_elem", C(endswith("Default::default@" + LI)), capv), f.get("items"))
    ctx.check(ok, "KNOB-CONF", nb, "new-literal", nb.span,
              "a new helper has capacity block_len*num_free_blocks default items, zero blocks and an empty vacant list; literal %s"
              % (show(lits[0]) if lits else "?"))
    for fname in ("num_free_blocks", "block_len"):
        for wb, bi, kind, payload in lib.field_writes().get((H, fname), []):
            ctx.check(kind == "literal" and wb is nb, "KNOB-CONF", wb, "config-immutable:" + fname, wb.loc(bi),
                      "%s is fixed at construction" % fname)
    # readers of num_free_blocks: only the active block range
    for b in lib.bodies.values():
        for bi, si, st in b.stmts():
            if st["k"] != "assign":
                continue
            for pl in _read_places(st):
                lf = None
                for pe in pl["proj"]:
                    if pe["k"] == "field" and pe.get("adt") == H and pe["name"] == "num_free_blocks":
                        lf = pe
                if lf is not None:
                    owner = b
                    # (the two range accessors; what they compute from it is pinned by H-RANGE)
                    ctx.check(owner is fn["active_block_range"] or owner is fn.get("active_index_range"), "KNOB-CONF", b,
                              "knob-read-only-in-range", b.loc(bi, si), "the knob may be read only to compute the active block / index range")
    # ---- dropped_block
    db = fn["dropped_block"]
    t, dfv = _ret(lib, db)
    S = Sites(lib, db)
    full = lambda t: cond.le_terms(t, lambda x: m(cap, x), lambda x: m(nel, x))     # the proposition capacity <= num_elements
    okd = cond.some_iff(dfv, S.root, t, {"k": "move", "place": {"local": 0, "proj": []}},
                        lambda x: full(x) is True, True, lambda x: m(F(C(H + "::active_block_range", ANY), "start"), x),
                        neg_pred=lambda x: full(x) is False)
    ctx.check(okd, "KNOB-EVICT", db, "dropped-block", db.span,
              "dropped_block = Some(first active block) exactly when the ring is full (capacity <= num_elements)")
    _push_block(ctx, lib, fn, item, cap, nel)
    _use_index(ctx, lib, fn, item)
    _vacant(ctx, lib, fn, item)
    _unused_base(ctx, lib, fn)
    _flags(ctx, lib, fn, item)


def _read_places(st):
    out = []
    rv = st["rv"]
    for k in ("place",):
        if k in rv and rv["k"] != "ref":
            out.append(rv[k])
        elif k in rv:
            out.append(rv[k])
    for k in ("op", "l", "r", "x"):
        o = rv.get(k)
        if isinstance(o, dict) and o.get("k") in ("copy", "move"):
            out.append(o["place"])
    for o in rv.get("ops", []):
        if o.get("k") in ("copy", "move"):
            out.append(o["place"])
    return out


def _list_item(ctx, lib):
    """H-ITEM: the list item as an abstract record (next, prev, used_base?, used_index?), independent of its representation
    (two bools today; a packed flag byte would do).  next/prev accessors and their `_mut` twins address the same field; the flag
    accessors satisfy the algebraic laws, evaluated at bit level (rules/bits.py) by composing getter after setter:
        is_used_base(use_base(s))  = true           is_used_index(use_index(s)) = true
        is_used_base(use_index(s)) = is_used_base(s)    is_used_index(use_base(s)) = is_used_index(s)
        use_base / use_index leave next and prev alone;  a default item has both flags clear"""
    from . import bits
    W = 32
    fields = {f["name"]: f for v_ in lib.adts[LI]["variants"] for f in v_["fields"]}
    width = {"bool": 1, "u8": 8, "u16": 16, "u32": 32}
    bodies = {}
    for name in ("next", "prev", "next_mut", "prev_mut", "is_used_base", "is_used_index", "use_base", "use_index"):
        b = lib.one_body(adt=LI, name=name)
        if b is None:
            ctx.missing("H-ITEM", "ListItem::" + name)
            return
        bodies[name] = b
    # next / prev: a field each, the `_mut` accessor hands out the same field
    link = {}
    for name in ("next", "prev"):
        t = pnorm(Sites(lib, bodies[name]).root.ret())
        tm = pnorm(Sites(lib, bodies[name + "_mut"]).root.ret())
        ok = t[0] == "field" and m(Par(1), t[1]) and t[2] == LI and core.same(t, tm)
        if ok:
            link[name] = t[3]
        ctx.check(ok, "H-ITEM", bodies[name], "accessor:" + name, bodies[name].span,
                  "ListItem::%s and %s_mut must address one and the same field of the item; return %s / %s" % (name, name, show(t), show(tm)), show(t))
    ctx.check(len(set(link.values())) == 2, "H-ITEM", bodies["next"], "accessor:distinct-links", bodies["next"].span,
              "next and prev must be two different fields")

    def state0():
        return {fn_: bits.var_bits(fn_, width.get(f["ty"], 32), W) for fn_, f in fields.items()}

    def env_of(state):
        def env(t):
            if t[0] == "field" and t[2] == LI and t[1][0] == "param" and t[1][1] == 1 and t[3] in state:
                return state[t[3]]
            return None
        return env

    def getter(name, state):
        t = pnorm(FnView(lib, bodies[name]).root.ret())
        try:
            return bits.ev(t, env_of(state), W)[0]
        except bits.Unknown:
            return None

    def after(name, state):
        S = Sites(lib, bodies[name])
        new = dict(state)
        for st_ in S.stores:
            tg = st_["tgt"]
            if not (tg[0] == "field" and tg[2] == LI and tg[1][0] == "param" and tg[1][1] == 1 and tg[3] in state):
                return None
            try:
                new[tg[3]] = bits.ev(st_["val"], env_of(state), W)
            except bits.Unknown:
                return None
        if not S.stores:
            return None
        return new
    s0 = state0()
    laws = []
    for setter, own, other in (("use_base", "is_used_base", "is_used_index"), ("use_index", "is_used_index", "is_used_base")):
        s1 = after(setter, s0)
        ok_set = s1 is not None and getter(own, s1) == bits.ONE
        ctx.check(ok_set, "H-ITEM", bodies[setter], "setter:" + setter, bodies[setter].span,
                  "after ListItem::%s the item must report %s() == true" % (setter, own))
        ok_keep = s1 is not None and getter(other, s0) is not None and getter(other, s1) == getter(other, s0) and \
            all(s1.get(link.get(k_)) == s0.get(link.get(k_)) for k_ in ("next", "prev") if k_ in link)
        ctx.check(ok_keep, "H-ITEM", bodies[setter], "setter-keeps:" + setter, bodies[setter].span,
                  "ListItem::%s must leave %s() and the next/prev links as they were (`=` where `|=` is meant erases the other flag: "
                  "a slot taken as an index would forget that its number is already somebody's BASE)" % (setter, other))
    for g in ("is_used_base", "is_used_index"):
        v0 = getter(g, s0)
        ctx.check(v0 is not None and v0 != bits.ONE and v0 != bits.ZERO, "H-ITEM", bodies[g], "accessor:" + g, bodies[g].span,
                  "ListItem::%s must read the item's state" % g)
    ctx.check(getter("is_used_base", s0) != getter("is_used_index", s0), "H-ITEM", bodies["is_used_base"], "accessor:distinct-flags",
              bodies["is_used_base"].span, "the two flags must be independent pieces of state")
    # a default item is unused / unlinked
    d = [b for b in lib.bodies.values() if b.j.get("impl_adt") == LI and b.j.get("impl_trait") == "core::default::Default"]
    for b in d:
        t = pnorm(FnView(lib, b).root.ret())
        ok = False
        if t[0] == "agg":
            sd = {}
            for fname, ft in t[3]:
                if ft[0] == "call" and "Default::default" in str(ft[1]):
                    sd[fname] = [bits.ZERO] * W
                else:
                    try:
                        sd[fname] = bits.ev(ft, lambda x: None, W)
                    except bits.Unknown:
                        sd = None
                        break
            ok = sd is not None and set(sd) == set(fields) and getter("is_used_base", sd) == bits.ZERO and getter("is_used_index", sd) == bits.ZERO
        ctx.check(ok, "H-ITEM", b, "default-unused", b.span, "a default list item is unused (both flag queries false)")


def _stores_via(S, accessor):
    """stores whose target is the result of ListItem::<accessor>(X): [(X, value, bb)]"""
    out = []
    for s in S.stores:
        t = s["tgt"]
        if t[0] == "call" and t[1] == LI + "::" + accessor:
            out.append((t[2][0], s["val"], s["bb"]))
    return out


def _push_block(ctx, lib, fn, item, cap, nel):
    b = fn["push_block"]
    S = Sites(lib, b)
    root = S.root
    bl = F(Par(1), "block_len")
    # capacity check first
    sw = switches_on(root, lambda d: cond.le_terms(d, lambda x: m(nel, x), lambda x: m(B("Sub", ANY, bl), x)) is not None)
    oksg = len(sw) == 1
    if not oksg:
        # `num_elements().checked_add(block_len)` with the None arm returning the error
        csw = switches_on(root, lambda d: d[0] == "discr" and d[1][0] == "call" and isinstance(d[1][1], str) and
                          d[1][1].endswith("::checked_add") and m(nel, d[1][2][0]) and m(bl, d[1][2][1]))
        errs = [bi for bi, si, st in b.stmts() if st["k"] == "assign" and st["lhs"]["local"] == 0 and st["rv"]["k"] == "aggregate" and st["rv"].get("variant") == "Err"]
        oksg = len(csw) == 1 and any(b.edge_guards((csw[0][0], opt_arms(csw[0][1])[1]), e) for e in errs)
        sw = csw if oksg else []
    ctx.check(oksg, "VALID-KIND", b, "scale-guard", b.span, "push_block must refuse to grow past u32::MAX (num_elements > MAX - block_len)")
    # num_blocks += 1, once
    ws = [s for s in S.stores if m(F(Par(1), "num_blocks"), s["tgt"])]
    ok = len(ws) == 1 and m(B("Add", F(Par(1), "num_blocks"), K(1)), ws[0]["val"]) and not b.in_cycle(ws[0]["bb"])
    ctx.check(ok, "H-PUSH", b, "one-block", b.span, "push_block adds exactly one block: num_blocks += 1 once; stores %s" % [show(s["val"]) for s in ws])
    if not ok:
        return
    wbb = ws[0]["bb"]
    # ---- KNOB-EVICT: eviction loop.  The duty may be part of push_block (today) or a public method of its own that every caller
    # of push_block runs first (then the loop clauses are checked on that method and the ordering clauses in every caller)
    dbs = S.named("dropped_block", H)
    uis = S.named("use_index", H)
    eb, ES = b, S
    separate = False
    if not uis:
        cands = []
        for x in fn.values():
            if x is b:
                continue
            XS = Sites(lib, x)
            if any(x.in_cycle(s_["bb"]) for s_ in XS.named("use_index", H)) and XS.named("dropped_block", H):
                cands.append((x, XS))
        if len(cands) == 1:
            eb, ES = cands[0]
            separate = True
            dbs = ES.named("dropped_block", H)
            uis = ES.named("use_index", H)
    eroot = ES.root
    head = P(F(Par(1), "head_idx"))
    ok = len(dbs) == 1 and len(uis) == 1 and m(Par(1), uis[0]["args"][0]) and m(head, uis[0]["args"][1]) and eb.in_cycle(uis[0]["bb"])
    ctx.check(ok, "KNOB-EVICT", b, "evict-loop", b.span,
              "when a block leaves the window, push_block must mark its remaining vacant slots used: loop use_index(head) while the head lies in that block")
    if ok:
        ubb = uis[0]["bb"]
        closed = P(C(H + "::dropped_block", Par(1), site=(eb.path, dbs[0]["bb"])))
        from .pat import OneOf
        end_idx = OneOf(B("Mul", B("Add", closed, K(1)), bl), B("Add", B("Mul", closed, bl), bl))
        brk = switches_on(eroot, lambda d: d[0] == "bin" and d[1] in ("Le", "Ge", "Lt", "Gt") and
                          ((m(end_idx, d[2]) and m(head, d[3])) or (m(head, d[2]) and m(end_idx, d[3]))))
        okb = len(brk) == 1
        if okb:
            sbi, stj, d = brk[0]
            tt, ff = bool_arms(stj)
            end_left = m(end_idx, d[2])
            op = d[1]
            # "stop" condition normalised: end_idx <= head  (head at or beyond the end of the closed block)
            if (op == "Le" and end_left) or (op == "Ge" and not end_left):
                stop, go = tt, ff
            elif (op == "Gt" and end_left) or (op == "Lt" and not end_left):
                stop, go = ff, tt
            else:
                stop = go = None
            # ... and the stop arm LEAVES the loop (the test is not evaluated again: `continue` instead of `break` would spin on an
            # unchanged head)
            okb = stop is not None and eb.edge_guards((sbi, go), ubb) and ubb not in eb.reach(stop, avoid_blocks=[sbi]) and \
                sbi not in eb.reach(stop)
        ctx.check(okb, "KNOB-EVICT", eb, "evict-bound", eb.span,
                  "eviction stops exactly when head >= (closed_block + 1) * block_len (an element index compared with an element index)")
        # guarded by dropped_block Some and head Some
        dsw = switches_on(eroot, lambda d: d[0] == "discr" and d[1][0] == "call" and d[1][3] == (eb.path, dbs[0]["bb"]))
        hsw = switches_on(eroot, lambda d: d[0] == "discr" and m(F(Par(1), "head_idx"), d[1]))
        some_edge = (dsw[0][0], opt_arms(dsw[0][1])[0]) if len(dsw) == 1 else None
        if some_edge is None:
            # `let closed = self.dropped_block()?;`: the Continue arm (discriminant 0) of Try::branch is the Some arm
            tsw = switches_on(eroot, lambda d: d[0] == "discr" and d[1][0] == "call" and isinstance(d[1][1], str) and
                              core.callee_base(d[1][1]) == "core::ops::Try::branch" and d[1][2] and d[1][2][0][0] == "call" and
                              d[1][2][0][3] == (eb.path, dbs[0]["bb"]))
            if len(tsw) == 1:
                some_edge = (tsw[0][0], opt_arms(tsw[0][1])[1])
        okg = some_edge is not None and eb.edge_guards(some_edge, ubb) and \
            any(eb.edge_guards((h[0], opt_arms(h[1])[0]), ubb) for h in hsw)
        ctx.check(okg, "KNOB-EVICT", eb, "evict-guards", eb.span, "eviction runs only when a block is dropped and while the vacant list is non-empty")
        if not separate:
            # ordering: the eviction loop precedes the growth (num_blocks += 1 not reachable back into the loop; loop reachable before)
            ctx.check(wbb in b.reach(ubb) and ubb not in b.reach(wbb), "KNOB-EVICT", b, "evict-before-grow", b.span,
                      "the dropped block's slots must be removed from the list BEFORE the ring slots are reused for the new block")
            ctx.check(b.dominates(dbs[0]["bb"], wbb), "KNOB-EVICT", b, "dropped-before-grow", b.span,
                      "dropped_block() must be evaluated before num_blocks is incremented")
        else:
            # the eviction method changes neither the window nor the block count, and EVERY caller of push_block runs it first, on
            # the same helper, on every path
            ew = [s_ for s_ in ES.stores if any(m(F(Par(1), f_), s_["tgt"]) for f_ in ("num_blocks", "block_len", "num_free_blocks"))]
            ctx.check(not ew, "KNOB-EVICT", eb, "evict-keeps-window", eb.span, "the eviction method must not change num_blocks / block_len / num_free_blocks")
            callers = 0
            for cb in lib.bodies.values():
                if cb.is_closure or cb.j.get("impl_adt") == H:
                    continue
                CS = Sites(lib, cb)
                pbs = [s_ for s_ in CS.named("push_block", H)]
                if not pbs:
                    continue
                callers += 1
                evs = [s_ for s_ in CS.calls if s_["c"].body_path == eb.path]
                for pb in pbs:
                    # (a caller may run it only on its own `if let Some(..) = helper.dropped_block()` path: when no block is dropped
                    # the method does nothing; so the paths are explored under "dropped_block() is Some")
                    def dropped(t):
                        return t[0] == "call" and isinstance(t[1], str) and core.callee_base(t[1]) == H + "::dropped_block"

                    def before(e_bb):
                        v0 = cond.explore(CS.root, [0], [], stop=[e_bb], some_atoms=[(dropped, True)])
                        if v0 is None or pb["bb"] in v0:
                            return False
                        # second round of a loop: push_block reachable from itself without passing the eviction call
                        nxt = [s2 for s2 in cb.succ(pb["bb"]) if s2 != e_bb]
                        v1 = cond.explore(CS.root, nxt, [], stop=[e_bb], some_atoms=[(dropped, True)]) if nxt else set()
                        return v1 is not None and pb["bb"] not in v1
                    okc = any(core.same(e_["args"][0], pb["args"][0]) and before(e_["bb"]) for e_ in evs)
                    if not okc:
                        # the first block of a NEW helper: num_blocks is 0 < 1 <= num_free_blocks, nothing can have left the window
                        h_ = pb["args"][0]
                        srcs = [h_]
                        if h_[0] == "var":
                            srcs = [pnorm(t_) for k_, t_, bb_ in CS.root.T.container_defs(h_[2]) if k_ in ("call", "rv")]
                        fresh = bool(srcs) and all(any(x[0] == "call" and isinstance(x[1], str) and core.callee_base(x[1]) == H + "::new"
                                                       for x in core.walk(t_)) for t_ in srcs)
                        okc = fresh and len([q for q in pbs if core.same(q["args"][0], h_)]) == 1 and not cb.in_cycle(pb["bb"])
                    ctx.check(okc, "KNOB-EVICT", cb, "evict-before-grow", cb.loc(pb["bb"]),
                              "every caller of push_block must first run %s on the same helper (on every path): the dropped block's slots "
                              "leave the list BEFORE the ring slots are reused" % eb.name)
            ctx.check(callers >= 1, "KNOB-EVICT", b, "evict-callers", b.span, "callers of push_block expected")
    # ---- H-PUSH: old_len read before the increment
    nes = S.named("num_elements", H)
    olds = [s for s in nes if b.dominates(s["bb"], wbb) and s["bb"] != (sw[0][0] if sw else -1)]
    # the one used for the range
    pulls = S.keyed(lambda k: core.callee_base(k) == "core::iter::Iterator::next")
    okr = len(pulls) == 1
    old = None
    if okr:
        r = pulls[0]["args"][0]
        env = {}
        okr = m(("agg", "core::ops::Range", "Range", (("start", V("old")), ("end", B("Add", V("old"), bl)))), r, env)
        if okr:
            old = env["old"]
            okr = old[0] == "call" and old[1] == H + "::num_elements" and b.dominates(old[3][1], wbb) and old[3][1] != wbb
    ctx.check(okr, "H-PUSH", b, "new-range", b.span,
              "the new block is old_len..old_len+block_len with old_len = num_elements() read before the increment; found %s"
              % [show(s["args"][0]) for s in pulls])
    if not okr:
        return
    oldp = lambda t, e: core.same(t, old)
    newm1 = B("Sub", B("Add", oldp, bl), K(1))
    i = P(C(anykey, ANY, site=(b.path, pulls[0]["bb"])))
    # the new slot's final contents, field by field, whatever the source form: a store of `ListItem::default()` followed by
    # stores through next_mut()/prev_mut(), or one struct literal `ListItem { next, prev, ..Default::default() }`
    def is_default(t):
        return t[0] == "call" and "Default::default" in str(t[1])
    whole = []      # (bb, index term, {field: term | 'default'})
    for x in S.stores:
        if x["tgt"][0] == "elem" and m(F(Par(1), "items"), x["tgt"][1]) and x["tgt"][2][0] == "bin" and x["tgt"][2][1] == "Rem":
            v = x["val"]
            if is_default(v):
                whole.append((x["bb"], x["tgt"][2][2], {"next": "default", "prev": "default", "used_base": "default", "used_index": "default"}))
            elif v[0] == "agg" and v[1] == LI:
                fl = {}
                for fname, ft in v[3]:
                    fl[fname] = "default" if (ft[0] == "field" and is_default(ft[1]) and ft[3] == fname) or \
                        (fname.startswith("used_") and ft[0] == "const" and ft[1] in (0, False, "false")) else ft
                whole.append((x["bb"], x["tgt"][2][2], fl))
    nxt = _stores_via(S, "next_mut")
    prv = _stores_via(S, "prev_mut")

    def has(stores, tgt_idx, val):
        return [bb for x, v, bb in stores if m(item(tgt_idx), x) and m(val, v)]
    rs = [{"bb": w[0], "args": [None, w[1]]} for w in whole]
    flags_ok = len(whole) == 1 and whole[0][2].get("used_base") == "default" and whole[0][2].get("used_index") == "default"
    ok1 = has(nxt, i, B("Add", i, K(1)))
    ok2 = has(prv, i, OneOfSub(i))
    if len(whole) == 1 and not ok1 and whole[0][2].get("next") != "default" and m(B("Add", i, K(1)), whole[0][2]["next"]):
        ok1 = [whole[0][0]]
    if len(whole) == 1 and not ok2 and whole[0][2].get("prev") != "default" and m(OneOfSub(i), whole[0][2]["prev"]):
        ok2 = [whole[0][0]]
    ctx.check(len(rs) == 1 and flags_ok and m(i, rs[0]["args"][1]) and bool(ok1) and bool(ok2), "H-PUSH", b, "chain-new-slots", b.span,
              "every new slot i is reset (used flags cleared) and linked next=i+1, prev=i-1")
    # … for EVERY new slot: no path through the loop body skips the reset or either link store
    swp = switches_on(root, lambda d: d[0] == "discr" and d[1][0] == "call" and d[1][3] == (b.path, pulls[0]["bb"]))
    if len(swp) == 1 and rs and ok1 and ok2:
        some_p, none_p = opt_arms(swp[0][1])
        for nm, bb in (("reset", rs[0]["bb"]), ("next", ok1[0]), ("prev", ok2[0])):
            ctx.check(pulls[0]["bb"] not in (b.reach(some_p, avoid_blocks=[bb]) - {some_p} if some_p != bb else set()), "H-PUSH", b,
                      "every-new-slot:" + nm, b.loc(bb), "every slot of the new block must be %s unconditionally (a recycled ring slot still holds the flags "
                      "of the block that was dropped)" % ("reset" if nm == "reset" else "linked (" + nm + ")"))
    # growth happens before the reset loop (offset() asserts the active range)
    ctx.check(b.dominates(wbb, pulls[0]["bb"]), "H-PUSH", b, "grow-before-reset", b.span, "num_blocks is incremented before the new slots are touched")
    head = P(F(Par(1), "head_idx"))
    tail = C(LI + "::prev", item(head))
    someb = [(has(prv, oldp, tail), "old.prev=tail"), (has(nxt, tail, oldp), "tail.next=old"),
             (has(nxt, newm1, head), "last.next=head"), (has(prv, head, newm1), "head.prev=last")]
    noneb = [(has(prv, oldp, newm1), "old.prev=last"), (has(nxt, newm1, oldp), "last.next=old")]
    hsw = [h for h in switches_on(root, lambda d: d[0] == "discr" and m(F(Par(1), "head_idx"), d[1])) if b.dominates(wbb, h[0])]
    okh = len(hsw) == 1
    ctx.check(okh, "H-PUSH", b, "splice-branch", b.span, "after growing, the new chain is spliced into the list depending on whether it is empty")
    if okh:
        some, none = opt_arms(hsw[0][1])
        for bbs, nm in someb:
            ctx.check(any(b.edge_guards((hsw[0][0], some), bb) for bb in bbs), "H-PUSH", b, "splice-nonempty:" + nm, b.span,
                      "non-empty list: the new chain goes between the old tail and the head (%s)" % nm)
        for bbs, nm in noneb:
            ctx.check(any(b.edge_guards((hsw[0][0], none), bb) for bb in bbs), "H-PUSH", b, "splice-empty:" + nm, b.span,
                      "empty list: the new chain is closed into a ring (%s)" % nm)
        hw = [s for s in S.stores if m(F(Par(1), "head_idx"), s["tgt"])]
        okw = len(hw) == 1 and hw[0]["val"][0] == "agg" and hw[0]["val"][2] == "Some" and core.same(dict(hw[0]["val"][3])["0"], old) and \
            b.edge_guards((hsw[0][0], none), hw[0]["bb"])
        ctx.check(okw, "H-PUSH", b, "splice-empty:head=old", b.span, "empty list: the head becomes the first new slot")


def OneOfSub(i):
    def f(t, env):
        return m(C(endswith("wrapping_sub"), i, K(1)), t, env) or m(B("Sub", i, K(1)), t, env)
    return f


def _use_index(ctx, lib, fn, item):
    b = fn["use_index"]
    S = Sites(lib, b)
    idx = Par(2)
    marks = [s for s in S.calls if s["c"].adt == LI and s["name"] == "use_index"]
    ctx.check(len(marks) == 1 and m(item(idx), marks[0]["args"][0]), "H-USE", b, "marks-used", b.span, "use_index marks slot idx used")
    nxt = _stores_via(S, "next_mut")
    prv = _stores_via(S, "prev_mut")
    n = C(LI + "::next", item(idx))
    p = C(LI + "::prev", item(idx))
    ok1 = any(m(item(p), x) and m(n, v) for x, v, bb in nxt)
    ok2 = any(m(item(n), x) and m(p, v) for x, v, bb in prv)
    rets_ = b.return_blocks()
    unc = all(all(b.dominates(bb_, r_) for r_ in rets_) for _, _, bb_ in nxt + prv) and all(all(b.dominates(s_["bb"], r_) for r_ in rets_) for s_ in marks)
    ctx.check(unc, "H-USE", b, "unconditional", b.span, "marking and unlinking happen on every call of use_index (no conditional skip)")
    ctx.check(ok1 and ok2 and len(nxt) == 1 and len(prv) == 1, "H-USE", b, "unlinks", b.span,
              "use_index unlinks the slot: prev.next = next, next.prev = prev; stores next_mut:%s prev_mut:%s"
              % ([(show(x), show(v)) for x, v, _ in nxt], [(show(x), show(v)) for x, v, _ in prv]))
    hw = [s for s in S.stores if m(F(Par(1), "head_idx"), s["tgt"])]
    okh = len(hw) == 1
    if okh:
        # guarded by head == idx; value = Some(next) filtered by != idx
        sw = switches_on(S.root, lambda d: d[0] == "bin" and d[1] == "Eq" and
                         ((m(P(F(Par(1), "head_idx")), d[2]) and m(idx, d[3])) or (m(idx, d[2]) and m(P(F(Par(1), "head_idx")), d[3]))))
        okh = len(sw) == 1 and b.edge_guards((sw[0][0], bool_arms(sw[0][1])[0]), hw[0]["bb"])
        okh = okh and _some_unless(S, b, hw[0]["val"], lambda t: m(n, t), lambda t: m(idx, t))
    ctx.check(okh, "H-USE", b, "head-advances", b.span,
              "if the head itself is used the head moves to its successor (or the list becomes empty when it was the only slot)")


def _some_unless(S, b, val, n_ok, other_ok):
    """val is `Some(n)` when n != other and `None` when n == other, in any of the source forms
         Some(n).filter(|&x| x != other)            (combinator)
         if n != other { Some(n) } else { None }    (either polarity / arm order; match on the comparison)
         (n != other).then_some(n) / .then(|| n)"""
    v = val
    if v[0] == "call" and isinstance(v[1], str):
        base = core.callee_base(v[1])
        if base == "core::option::Option::filter" and len(v[2]) == 2:
            a0, cl = v[2]
            if not (a0[0] == "agg" and a0[2] == "Some" and n_ok(dict(a0[3])["0"])):
                return False
            cr = S.fv.closure_ret(cl[1]) if cl[0] == "closure" else None
            return cr is not None and cr[0] == "bin" and cr[1] == "Ne" and (other_ok(cr[2]) or other_ok(cr[3]))
        if base in ("core::bool::then_some", "core::bool::then") and len(v[2]) == 2:
            c, x = v[2]
            if x[0] == "closure":
                x = S.fv.closure_ret(x[1])
            return x is not None and n_ok(x) and c[0] == "bin" and c[1] == "Ne" and \
                ((n_ok(c[2]) and other_ok(c[3])) or (n_ok(c[3]) and other_ok(c[2])))
        return False
    ms = members(v)
    somes = [x for x in ms if x[0] == "agg" and x[2] == "Some"]
    nones = [x for x in ms if x[0] == "agg" and x[2] == "None"]
    if len(ms) != 2 or len(somes) != 1 or len(nones) != 1 or not n_ok(dict(somes[0][3])["0"]):
        return False
    sw = switches_on(S.root, lambda d: d[0] == "bin" and d[1] in ("Eq", "Ne") and
                     ((n_ok(d[2]) and other_ok(d[3])) or (n_ok(d[3]) and other_ok(d[2]))))
    if len(sw) != 1:
        return False
    sbb, stj, d = sw[0]
    tt, ff = bool_arms(stj)
    ne_arm, eq_arm = (tt, ff) if d[1] == "Ne" else (ff, tt)
    sdef = {}
    ndef = {}
    for bi, si, st in b.stmts():
        if st["k"] == "assign" and st["rv"]["k"] == "aggregate" and not st["lhs"]["proj"]:
            var = st["rv"].get("variant")
            if var == "Some" and n_ok(S.root.op(st["rv"]["ops"][0])):
                sdef.setdefault(st["lhs"]["local"], []).append(bi)
            elif var == "None":
                ndef.setdefault(st["lhs"]["local"], []).append(bi)
    for loc, sb in sdef.items():
        nb = ndef.get(loc)
        if nb and all(b.edge_guards((sbb, ne_arm), x) for x in sb) and all(b.edge_guards((sbb, eq_arm), x) for x in nb):
            return True
    return False


def _vacant(ctx, lib, fn, item):
    nb = lib.find_bodies(adt=VI, trait="core::iter::Iterator", name="next")
    if len(nb) != 1:
        ctx.missing("H-VAC", "VacantIter::next")
        return
    b = nb[0]
    S = Sites(lib, b)
    cur = P(F(Par(1), "idx"))
    ret = pnorm(S.root.ret())
    somes = [x for x in members(ret) if x[0] == "agg" and x[2] == "Some"]
    ctx.check(len(somes) == 1 and m(cur, dict(somes[0][3])["0"]), "H-VAC", b, "yields-current", b.span,
              "the vacant iterator yields the current index; returns %s" % show(ret))
    ws = [s for s in S.stores if m(F(Par(1), "idx"), s["tgt"])]
    def is_next(t):
        return t[0] == "call" and t[1] == LI + "::next" and any(m(cur, y) for y in walk(t))

    def is_head(t):
        return any(y[0] == "field" and y[3] == "head_idx" for y in walk(t))
    ok = len(ws) == 1 and _some_unless(S, b, ws[0]["val"], is_next, is_head)
    ctx.check(ok, "H-VAC", b, "advance-until-head", b.span,
              "the iterator advances to next(current) and stops when it is back at the list head (one full turn of the ring)")
    vb = fn["vacant_iter"]
    t = pnorm(FnView(lib, vb).root.ret())
    okc = t[0] == "agg" and m(Par(1), dict(t[3]).get("list")) and m(F(Par(1), "head_idx"), dict(t[3]).get("idx"))
    ctx.check(okc, "H-VAC", vb, "starts-at-head", vb.span, "vacant_iter starts at the list head; literal %s" % show(t))


def _unused_base(ctx, lib, fn):
    b = fn["unused_base_in_block"]
    S = Sites(lib, b)
    bl = F(Par(1), "block_len")
    start = B("Mul", Par(2), bl)
    end = B("Add", start, bl)
    finds = S.keyed(lambda k: core.callee_base(k) == "core::iter::Iterator::find")
    ok = False
    if len(finds) == 1:
        r = finds[0]["args"][0]
        rr = [x for x in members(r) if x[0] == "agg"]
        ok = len(rr) == 1 and m(("agg", "core::ops::Range", "Range", (("start", start), ("end", end))), rr[0])
        cl = finds[0]["args"][1]
        cr = S.fv.closure_ret(cl[1]) if cl[0] == "closure" else None
        ok = ok and cr is not None and cr[0] == "un" and cr[1] == "Not" and cr[2][0] == "call" and cr[2][1] == H + "::is_used_base" and \
            m(Par(1), cr[2][2][0]) and cr[2][2][1][0] == "item"
    else:
        ok = _first_unused_loop(S, b, start, end)
    ctx.check(ok, "H-UNUSED", b, "scan-block-for-unused-base", b.span,
              "unused_base_in_block scans block_idx*block_len .. +block_len for a base that is not used")


def _first_unused_loop(S, b, start, end):
    """explicit form of `(start..end).find(|&c| !self.is_used_base(c))`: a counter c = start, start+1, … < end; the first c
    with !is_used_base(c) is returned as Some(c); None only when the loop ran out"""
    root = S.root
    cnt = Phi(B("Add", ANY, K(1)), start, req=[0, 1])
    ubs = [s for s in S.calls if s["vw"] is root and s["key"] == H + "::is_used_base" and m(Par(1), s["args"][0]) and m(cnt, s["args"][1])]
    if len(ubs) != 1 or not b.in_cycle(ubs[0]["bb"]):
        return False
    ub = ubs[0]
    c = ub["args"][1]
    same_c = lambda x: core.same(x, c)
    # loop test: c < end   (any comparison form)
    tests = []
    for sbi, stj, d in switches_on(root, lambda d: d[0] == "bin" or (d[0] == "un" and d[1] == "Not")):
        r = cond.le_terms(d, lambda x: m(end, x), same_c)      # end <= c  == loop finished
        if r is not None and b.in_cycle(sbi) and b.dominates(sbi, ub["bb"]):
            tt, ff = bool_arms(stj)
            tests.append((sbi, ff if r else tt, tt if r else ff))      # (switch, body arm, exit arm)
    if len(tests) != 1:
        return False
    sbi, body_arm, exit_arm = tests[0]
    somes = [bi for bi, si, st in b.stmts() if st["k"] == "assign" and st["lhs"]["local"] == 0 and not st["lhs"]["proj"] and
             st["rv"]["k"] == "aggregate" and st["rv"].get("variant") == "Some" and same_c(pnorm(root.T.operand(st["rv"]["ops"][0])))]
    nones = [bi for bi, si, st in b.stmts() if st["k"] == "assign" and st["lhs"]["local"] == 0 and not st["lhs"]["proj"] and
             st["rv"]["k"] == "aggregate" and st["rv"].get("variant") == "None"]
    if len(somes) != 1 or not nones:
        return False
    usite = (b.path, ub["bb"])
    used = lambda t: t[0] == "call" and t[3] == usite
    free = cond.explore(root, [body_arm], [(used, False)], stop=[sbi] + somes)
    busy = cond.explore(root, [body_arm], [(used, True)], stop=[sbi] + somes)
    if free is None or busy is None:
        return False
    ok = somes[0] in free and sbi not in free and sbi in busy and somes[0] not in busy
    # None only after the loop ran out; the counter advances on the way back to the test
    ok = ok and all(b.edge_guards((sbi, exit_arm), nb) for nb in nones)
    def is_inc(t):
        return t[0] in ("bin", "ovf") and t[1] == "Add" and ((core.same(t[2], c) and is_const(t[3], 1)) or (core.same(t[3], c) and is_const(t[2], 1)))
    upd = [bi for bi, si, st in b.stmts() if st["k"] == "assign" and not st["lhs"]["proj"] and b.in_cycle(bi) and
           is_inc(pnorm(root.T.rvalue(st["rv"])))]
    return ok and bool(upd) and sbi not in b.reach(body_arm, avoid_blocks=upd + somes)


def _flags(ctx, lib, fn, item):
    for name, acc in (("is_used_base", "is_used_base"), ("is_used_index", "is_used_index")):
        b = fn[name]
        t = pnorm(FnView(lib, b).root.ret())
        ctx.check(m(C(LI + "::" + acc, item(Par(2))), t), "H-ITEM", b, "flag-query:" + name, b.span,
                  "BuildHelper::%s(i) must query ListItem::%s of slot i; returns %s" % (name, acc, show(t)), show(t))
    b = fn["use_base"]
    S = Sites(lib, b)
    marks = [s for s in S.calls if s["c"].adt == LI]
    unc = len(marks) == 1 and all(b.dominates(marks[0]["bb"], r_) for r_ in b.return_blocks())
    ctx.check(len(marks) == 1 and marks[0]["name"] == "use_base" and m(item(Par(2)), marks[0]["args"][0]) and unc, "H-ITEM", b, "flag-set:use_base", b.span,
              "BuildHelper::use_base(b) must mark slot b as a used base, unconditionally (a base that is silently not recorded can be handed out twice)")
