// A safe haystack type whose AsRef<str> is not pure (interior mutability): allowed by the AsRef contract, safe code only.
use std::cell::Cell;
use daachorse::{CharwiseDoubleArrayAhoCorasickBuilder, CharwiseDoubleArrayAhoCorasick, MatchKind};

struct Shrinking { calls: Cell<usize>, texts: Vec<&'static str> }
impl AsRef<str> for Shrinking {
    fn as_ref(&self) -> &str {
        let n = self.calls.get();
        self.calls.set(n + 1);
        self.texts[n.min(self.texts.len() - 1)]
    }
}

#[test]
fn leftmost_get_unchecked_past_the_end() {
    let pma: CharwiseDoubleArrayAhoCorasick<u32> = CharwiseDoubleArrayAhoCorasickBuilder::new()
        .match_kind(MatchKind::LeftmostLongest).build(["abc"]).unwrap();
    let h = Shrinking { calls: Cell::new(0), texts: vec!["abcabc", ""] };
    let mut it = pma.leftmost_find_iter(h);
    let m = it.next();               // as_ref() #1 = "abcabc": match 0..3, self.pos = 3
    assert!(m.is_some());
    let _ = it.next();               // as_ref() #2 = "": get_unchecked(3..) on an empty str  => UB (debug: precondition abort)
}

#[test]
fn decoder_unwrap_unchecked_on_truncated_sequence() {
    let pma: CharwiseDoubleArrayAhoCorasick<u32> = CharwiseDoubleArrayAhoCorasick::new(["é"]).unwrap();
    // StrIterator calls as_ref() once per byte: first byte 0xC3 of "é", then the text becomes empty: the decoder's
    // continuation pull gets None and calls unwrap_unchecked on it
    let h = Shrinking { calls: Cell::new(0), texts: vec!["é", ""] };
    let mut it = pma.find_iter(h);
    let _ = it.next();
}
