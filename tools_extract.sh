#!/bin/sh
# dev helper: extract facts of /repo (workspace) into a directory:  ./tools_extract.sh /tmp/ft
cd /verif && python3 -c "
import sys; sys.path.insert(0,'/verif')
from rules import core
core.extract(workspace=True, keep='$1')
print('facts in $1')
"
