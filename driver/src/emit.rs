use crate::json::J;
use rustc_abi::{FieldIdx, VariantIdx, FIRST_VARIANT};
use rustc_hir::def::DefKind;
use rustc_hir::def_id::{DefId, LocalDefId, LOCAL_CRATE};
use rustc_middle::mir::{
    self, AggregateKind, BasicBlock, Body, Operand, Place, PlaceElem, Rvalue, StatementKind,
    TerminatorKind,
};
use rustc_middle::mir::PlaceTy;
use rustc_middle::ty::{self, Instance, Ty, TyCtxt, TyKind, TypingEnv};
use rustc_span::Span;
use std::collections::HashSet;

pub fn emit<'tcx>(tcx: TyCtxt<'tcx>) {
    let dir = match std::env::var("DAAC_FACTS_DIR") {
        Ok(d) => d,
        Err(_) => return,
    };
    let j = rustc_middle::ty::print::with_no_trimmed_paths!(build(tcx));
    let mut out = String::with_capacity(1 << 22);
    j.write(&mut out);
    let name = tcx.crate_name(LOCAL_CRATE).to_string();
    let kind = format!("{:?}", tcx.crate_types()).replace(|c: char| !c.is_alphanumeric(), "");
    let is_test = tcx.sess.opts.test;
    let path = format!(
        "{}/{}.{}{}.json",
        dir,
        name,
        kind,
        if is_test { ".test" } else { "" }
    );
    std::fs::write(&path, out).expect("write facts");
}

struct Cx<'tcx> {
    tcx: TyCtxt<'tcx>,
}

fn build<'tcx>(tcx: TyCtxt<'tcx>) -> J {
    let cx = Cx { tcx };
    let mut adts = Vec::new();
    let mut consts = Vec::new();
    let mut statics = Vec::new();
    let mut impls = Vec::new();
    let mut fns = Vec::new();
    let mut traits = Vec::new();
    let mut externs = Vec::new();
    let mut foreign = Vec::new();
    let mut other_kinds: Vec<J> = Vec::new();

    for did in tcx.hir_crate_items(()).definitions() {
        let kind = tcx.def_kind(did);
        match kind {
            DefKind::Struct | DefKind::Enum | DefKind::Union => adts.push(cx.adt(did)),
            DefKind::Const { .. } | DefKind::AssocConst { .. } => consts.push(cx.konst(did)),
            DefKind::Static { .. } => statics.push(
                J::obj()
                    .fs("path", tcx.def_path_str(did.to_def_id()))
                    .fs("span", cx.span(tcx.def_span(did.to_def_id())))
                    .done(),
            ),
            DefKind::Impl { .. } => impls.push(cx.imp(did)),
            DefKind::Fn | DefKind::AssocFn => fns.push(cx.fn_item(did)),
            DefKind::Trait => traits.push(
                J::obj()
                    .fs("path", tcx.def_path_str(did.to_def_id()))
                    .f(
                        "items",
                        J::Arr(
                            tcx.associated_item_def_ids(did.to_def_id())
                                .iter()
                                .map(|d| J::s(tcx.item_name(*d).to_string()))
                                .collect(),
                        ),
                    )
                    .done(),
            ),
            DefKind::ExternCrate => {
                externs.push(J::s(tcx.item_name(did.to_def_id()).to_string()))
            }
            DefKind::ForeignMod => foreign.push(J::s(tcx.def_path_str(did.to_def_id()))),
            DefKind::GlobalAsm => other_kinds.push(J::s("global_asm")),
            _ => {}
        }
    }

    let mut bodies = Vec::new();
    for did in tcx.hir_body_owners() {
        let kind = tcx.def_kind(did);
        match kind {
            DefKind::Fn | DefKind::AssocFn | DefKind::Closure => {
                bodies.push(cx.body(did));
                // promoted constants of this body (e.g. `&MatchKind::Standard` in `self == Self::Standard`)
                let proms = tcx.promoted_mir(did.to_def_id());
                for (pi, pb) in proms.iter_enumerated() {
                    bodies.push(cx.promoted_body(did, pi.as_u32(), pb));
                }
            }
            _ => {}
        }
    }

    // no_std <=> the crate graph rustc loaded for this crate does not contain `std`
    let no_std = !tcx.crates(()).iter().any(|c| tcx.crate_name(*c).as_str() == "std");

    // crates this crate links against (direct + transitive as rustc sees them)
    let deps: Vec<J> = tcx
        .crates(())
        .iter()
        .map(|c| J::s(tcx.crate_name(*c).to_string()))
        .collect();

    J::obj()
        .fs("crate", tcx.crate_name(LOCAL_CRATE).to_string())
        .fb("no_std", no_std)
        .fb("is_test", tcx.sess.opts.test)
        .fb("overflow_checks", tcx.sess.overflow_checks())
        .fb("debug_assertions", tcx.sess.opts.debug_assertions)
        .fi("pointer_bits", tcx.data_layout.pointer_size().bits() as i128)
        .f("deps", J::Arr(deps))
        .f("extern_crates", J::Arr(externs))
        .f("foreign_mods", J::Arr(foreign))
        .f("other", J::Arr(other_kinds))
        .f("adts", J::Arr(adts))
        .f("consts", J::Arr(consts))
        .f("statics", J::Arr(statics))
        .f("impls", J::Arr(impls))
        .f("traits", J::Arr(traits))
        .f("fns", J::Arr(fns))
        .f("bodies", J::Arr(bodies))
        .done()
}

impl<'tcx> Cx<'tcx> {
    fn span(&self, sp: Span) -> String {
        let sm = self.tcx.sess.source_map();
        let lo = sm.lookup_char_pos(sp.lo());
        let file = match &lo.file.name {
            rustc_span::FileName::Real(r) => match r.local_path() {
                Some(p) => p.display().to_string(),
                None => format!("{:?}", r),
            },
            other => format!("{:?}", other),
        };
        format!("{}:{}", file, lo.line)
    }

    fn path(&self, d: DefId) -> String {
        self.tcx.def_path_str(d)
    }

    fn krate(&self, d: DefId) -> String {
        self.tcx.crate_name(d.krate).to_string()
    }

    fn ty_s(&self, t: Ty<'tcx>) -> String {
        format!("{}", t)
    }

    /// structured type
    fn tyj(&self, t: Ty<'tcx>, depth: usize) -> J {
        if depth > 6 {
            return J::obj().fs("k", "deep").fs("s", self.ty_s(t)).done();
        }
        match t.kind() {
            TyKind::Bool | TyKind::Char | TyKind::Int(_) | TyKind::Uint(_) | TyKind::Float(_)
            | TyKind::Str | TyKind::Never => {
                J::obj().fs("k", "prim").fs("s", self.ty_s(t)).done()
            }
            TyKind::Adt(adt, args) => {
                let a: Vec<J> = args
                    .iter()
                    .filter_map(|ga| ga.as_type())
                    .map(|x| self.tyj(x, depth + 1))
                    .collect();
                J::obj()
                    .fs("k", "adt")
                    .fs("path", self.path(adt.did()))
                    .fs("krate", self.krate(adt.did()))
                    .f("args", J::Arr(a))
                    .fs("s", self.ty_s(t))
                    .done()
            }
            TyKind::Ref(_, inner, m) => J::obj()
                .fs("k", "ref")
                .fb("mut", m.is_mut())
                .f("to", self.tyj(*inner, depth + 1))
                .fs("s", self.ty_s(t))
                .done(),
            TyKind::RawPtr(inner, m) => J::obj()
                .fs("k", "rawptr")
                .fb("mut", m.is_mut())
                .f("to", self.tyj(*inner, depth + 1))
                .fs("s", self.ty_s(t))
                .done(),
            TyKind::Param(p) => J::obj().fs("k", "param").fs("s", p.name.to_string()).done(),
            TyKind::Tuple(ts) => J::obj()
                .fs("k", "tuple")
                .f("elems", J::Arr(ts.iter().map(|x| self.tyj(x, depth + 1)).collect()))
                .fs("s", self.ty_s(t))
                .done(),
            TyKind::Slice(inner) => J::obj()
                .fs("k", "slice")
                .f("of", self.tyj(*inner, depth + 1))
                .fs("s", self.ty_s(t))
                .done(),
            TyKind::Array(inner, _) => J::obj()
                .fs("k", "array")
                .f("of", self.tyj(*inner, depth + 1))
                .fs("s", self.ty_s(t))
                .done(),
            TyKind::FnDef(d, _) => J::obj()
                .fs("k", "fndef")
                .fs("path", self.path(*d))
                .fs("s", self.ty_s(t))
                .done(),
            TyKind::Closure(d, _) => J::obj()
                .fs("k", "closure")
                .fs("path", self.path(*d))
                .fs("s", self.ty_s(t))
                .done(),
            TyKind::Alias(..) => J::obj().fs("k", "alias").fs("s", self.ty_s(t)).done(),
            _ => J::obj().fs("k", "other").fs("s", self.ty_s(t)).done(),
        }
    }

    fn vis(&self, did: DefId) -> String {
        let v = self.tcx.visibility(did);
        if v.is_public() {
            "pub".to_string()
        } else {
            match v {
                ty::Visibility::Restricted(m) => {
                    if m.is_crate_root() {
                        "crate".to_string()
                    } else {
                        format!("in:{}", self.path(m))
                    }
                }
                ty::Visibility::Public => "pub".to_string(),
            }
        }
    }

    fn generics(&self, did: DefId) -> J {
        let g = self.tcx.generics_of(did);
        let mut params = Vec::new();
        let mut cur = Some(g);
        while let Some(gg) = cur {
            for p in &gg.own_params {
                params.push(
                    J::obj()
                        .fs("name", p.name.to_string())
                        .fs(
                            "kind",
                            match p.kind {
                                ty::GenericParamDefKind::Lifetime => "lifetime",
                                ty::GenericParamDefKind::Type { .. } => "type",
                                ty::GenericParamDefKind::Const { .. } => "const",
                            },
                        )
                        .done(),
                );
            }
            cur = gg.parent.map(|p| self.tcx.generics_of(p));
        }
        let preds: Vec<J> = self
            .tcx
            .predicates_of(did)
            .instantiate_identity(self.tcx)
            .predicates
            .iter()
            .map(|p| J::s(format!("{}", p.skip_norm_wip())))
            .collect();
        J::obj().f("params", J::Arr(params)).f("preds", J::Arr(preds)).done()
    }

    fn adt(&self, did: LocalDefId) -> J {
        let tcx = self.tcx;
        let adt = tcx.adt_def(did.to_def_id());
        let mut variants = Vec::new();
        let discrs: Vec<(VariantIdx, u128)> = if adt.is_enum() {
            adt.discriminants(tcx).map(|(i, d)| (i, d.val)).collect()
        } else {
            Vec::new()
        };
        for (vi, v) in adt.variants().iter_enumerated() {
            let mut fields = Vec::new();
            for f in v.fields.iter() {
                let fty = tcx.type_of(f.did).instantiate_identity().skip_norm_wip();
                fields.push(
                    J::obj()
                        .fs("name", f.name.to_string())
                        .fs("ty", self.ty_s(fty))
                        .f("tyj", self.tyj(fty, 0))
                        .fs("vis", self.vis(f.did))
                        .done(),
                );
            }
            let d = discrs.iter().find(|(i, _)| *i == vi).map(|(_, d)| *d);
            variants.push(
                J::obj()
                    .fs("name", v.name.to_string())
                    .f("discr", d.map(|x| J::Int(x as i128)).unwrap_or(J::Null))
                    .f("fields", J::Arr(fields))
                    .done(),
            );
        }
        let self_ty = tcx.type_of(did.to_def_id()).instantiate_identity().skip_norm_wip();
        let size = if tcx.generics_of(did.to_def_id()).count() == 0 {
            tcx.layout_of(TypingEnv::fully_monomorphized().as_query_input(self_ty))
                .ok()
                .map(|l| l.size.bytes() as i128)
        } else {
            None
        };
        let mut hits = Vec::new();
        let mut visited = HashSet::new();
        self.walk_cells(self_ty, &mut visited, &mut String::new(), 0, &mut hits);
        J::obj()
            .fs("path", self.path(did.to_def_id()))
            .fs("name", tcx.item_name(did.to_def_id()).to_string())
            .fs(
                "kind",
                if adt.is_enum() {
                    "enum"
                } else if adt.is_union() {
                    "union"
                } else {
                    "struct"
                },
            )
            .fs("vis", self.vis(did.to_def_id()))
            .fs("repr", format!("{:?}", adt.repr()))
            .f("size", size.map(J::Int).unwrap_or(J::Null))
            .f("generics", self.generics(did.to_def_id()))
            .f("variants", J::Arr(variants))
            .f("unsafe_cell_paths", J::Arr(hits.into_iter().map(J::s).collect()))
            .fs("span", self.span(tcx.def_span(did.to_def_id())))
            .done()
    }

    /// Walk the transitive field closure of `t` looking for UnsafeCell (interior mutability),
    /// through references, raw pointers, boxes, vectors (their generic arguments) and tuples.
    /// Type parameters are recorded as `param:<name>` leaves but not treated as hits.
    fn walk_cells(
        &self,
        t: Ty<'tcx>,
        visited: &mut HashSet<Ty<'tcx>>,
        path: &mut String,
        depth: usize,
        hits: &mut Vec<String>,
    ) {
        if depth > 24 || !visited.insert(t) {
            return;
        }
        match t.kind() {
            TyKind::Adt(adt, args) => {
                if adt.is_unsafe_cell() {
                    hits.push(format!("{} :: {}", path, self.ty_s(t)));
                    return;
                }
                // generic arguments (covers Vec<T>, Box<T>, PhantomData<T> conservatively)
                for ga in args.iter() {
                    if let Some(x) = ga.as_type() {
                        let l = path.len();
                        path.push_str(&format!("<{}>", self.ty_s(x)));
                        self.walk_cells(x, visited, path, depth + 1, hits);
                        path.truncate(l);
                    }
                }
                for v in adt.variants().iter() {
                    for f in v.fields.iter() {
                        let fty = f.ty(self.tcx, args);
                        let l = path.len();
                        path.push_str(&format!(".{}", f.name));
                        self.walk_cells(fty, visited, path, depth + 1, hits);
                        path.truncate(l);
                    }
                }
            }
            TyKind::Ref(_, inner, _) | TyKind::RawPtr(inner, _) | TyKind::Slice(inner) => {
                self.walk_cells(*inner, visited, path, depth + 1, hits)
            }
            TyKind::Array(inner, _) => self.walk_cells(*inner, visited, path, depth + 1, hits),
            TyKind::Tuple(ts) => {
                for x in ts.iter() {
                    self.walk_cells(x, visited, path, depth + 1, hits);
                }
            }
            _ => {}
        }
    }

    fn konst(&self, did: LocalDefId) -> J {
        let tcx = self.tcx;
        let d = did.to_def_id();
        let ty = tcx.type_of(d).instantiate_identity().skip_norm_wip();
        let mut val = J::Null;
        if tcx.generics_of(d).count() == 0 || tcx.generics_of(d).own_params.is_empty() {
            if let Ok(v) = tcx.const_eval_poly(d) {
                if let Some(s) = v.try_to_scalar_int() {
                    val = J::Int(s.to_bits(s.size()) as i128);
                }
            }
        }
        J::obj()
            .fs("path", self.path(d))
            .fs("name", tcx.item_name(d).to_string())
            .fs("ty", self.ty_s(ty))
            .f("val", val)
            .fs("vis", self.vis(d))
            .done()
    }

    fn imp(&self, did: LocalDefId) -> J {
        let tcx = self.tcx;
        let d = did.to_def_id();
        let self_ty = tcx.type_of(d).instantiate_identity().skip_norm_wip();
        let tr = tcx.impl_opt_trait_ref(d).map(|t| t.instantiate_identity().skip_norm_wip());
        let items: Vec<J> = tcx
            .associated_item_def_ids(d)
            .iter()
            .map(|i| {
                J::obj()
                    .fs("name", tcx.item_name(*i).to_string())
                    .fs("path", self.path(*i))
                    .fs("kind", format!("{:?}", tcx.def_kind(*i)))
                    .done()
            })
            .collect();
        let from_expansion = tcx.def_span(d).from_expansion();
        let automatically_derived = tcx.is_automatically_derived(d);
        J::obj()
            .fs("path", self.path(d))
            .fs("self_ty", self.ty_s(self_ty))
            .f("self_tyj", self.tyj(self_ty, 0))
            .f(
                "trait",
                match tr {
                    Some(t) => J::s(self.path(t.def_id)),
                    None => J::Null,
                },
            )
            .f(
                "trait_full",
                match tr {
                    Some(t) => J::s(format!("{}", t)),
                    None => J::Null,
                },
            )
            .fb("derived", automatically_derived)
            .fb("from_expansion", from_expansion)
            .f("generics", self.generics(d))
            .f("items", J::Arr(items))
            .fs("span", self.span(tcx.def_span(d)))
            .done()
    }

    fn owner_info(&self, d: DefId) -> (J, J, J) {
        // (impl self type, impl trait, impl self adt path)
        let tcx = self.tcx;
        let mut cur = d;
        // climb out of closures
        while tcx.def_kind(cur) == DefKind::Closure {
            cur = tcx.parent(cur);
        }
        if matches!(tcx.def_kind(cur), DefKind::AssocFn) {
            let p = tcx.parent(cur);
            if let DefKind::Impl { .. } = tcx.def_kind(p) {
                let self_ty = tcx.type_of(p).instantiate_identity().skip_norm_wip();
                let tr = tcx.impl_opt_trait_ref(p).map(|t| t.instantiate_identity().skip_norm_wip());
                let adt = match self_ty.kind() {
                    TyKind::Adt(a, _) => J::s(self.path(a.did())),
                    _ => J::Null,
                };
                return (
                    J::s(self.ty_s(self_ty)),
                    match tr {
                        Some(t) => J::s(self.path(t.def_id)),
                        None => J::Null,
                    },
                    adt,
                );
            } else if let DefKind::Trait = tcx.def_kind(p) {
                return (J::s("Self"), J::s(self.path(p)), J::Null);
            }
        }
        (J::Null, J::Null, J::Null)
    }

    fn fn_item(&self, did: LocalDefId) -> J {
        let tcx = self.tcx;
        let d = did.to_def_id();
        let sig = tcx.fn_sig(d).instantiate_identity().skip_norm_wip().skip_binder();
        let (self_ty, tr, adt) = self.owner_info(d);
        J::obj()
            .fs("path", self.path(d))
            .fs("name", tcx.item_name(d).to_string())
            .fs("vis", self.vis(d))
            .fb("unsafe", sig.safety().is_unsafe())
            .fb("const", tcx.is_const_fn(d))
            .f("inputs", J::Arr(sig.inputs().iter().map(|t| self.tyj(*t, 0)).collect()))
            .f("output", self.tyj(sig.output(), 0))
            .f("impl_self_ty", self_ty)
            .f("impl_trait", tr)
            .f("impl_adt", adt)
            .f("generics", self.generics(d))
            .fb("has_body", tcx.is_mir_available(d))
            .fs("span", self.span(tcx.def_span(d)))
            .done()
    }

    // ---------------------------------------------------------------- MIR

    fn body(&self, did: LocalDefId) -> J {
        let tcx = self.tcx;
        let d = did.to_def_id();
        let body: &Body<'tcx> = tcx.optimized_mir(d);
        let env = TypingEnv::post_analysis(tcx, d);
        let kind = tcx.def_kind(d);
        let (self_ty, tr, adt) = self.owner_info(d);

        let mut locals = Vec::new();
        for (_l, decl) in body.local_decls.iter_enumerated() {
            locals.push(
                J::obj()
                    .fs("ty", self.ty_s(decl.ty))
                    .f("tyj", self.tyj(decl.ty, 0))
                    .done(),
            );
        }
        let mut dbg = Vec::new();
        for v in &body.var_debug_info {
            let what = match &v.value {
                mir::VarDebugInfoContents::Place(p) => self.place(body, p),
                mir::VarDebugInfoContents::Const(c) => {
                    J::obj().fs("const", format!("{}", c.const_)).done()
                }
            };
            dbg.push(
                J::obj()
                    .fs("name", v.name.to_string())
                    .f("arg", v.argument_index.map(|i| J::Int(i as i128)).unwrap_or(J::Null))
                    .f("at", what)
                    .done(),
            );
        }

        let mut blocks = Vec::new();
        for (_bb, data) in body.basic_blocks.iter_enumerated() {
            let mut stmts = Vec::new();
            for st in &data.statements {
                let sj = match &st.kind {
                    StatementKind::Assign(b) => {
                        let (place, rv) = &**b;
                        Some(
                            J::obj()
                                .fs("k", "assign")
                                .f("lhs", self.place(body, place))
                                .f("rv", self.rvalue(body, env, rv)),
                        )
                    }
                    StatementKind::SetDiscriminant { place, variant_index } => Some(
                        J::obj()
                            .fs("k", "setdiscr")
                            .f("lhs", self.place(body, place))
                            .fi("variant", variant_index.as_u32() as i128),
                    ),
                    StatementKind::Intrinsic(i) => {
                        Some(J::obj().fs("k", "intrinsic").fs("s", format!("{:?}", i)))
                    }
                    _ => None,
                };
                if let Some(o) = sj {
                    stmts.push(
                        o.fs("span", self.span(st.source_info.span))
                            .fb("exp", st.source_info.span.from_expansion())
                            .done(),
                    );
                }
            }
            let term = data.terminator();
            let tj = self
                .terminator(body, env, &term.kind)
                .fs("span", self.span(term.source_info.span))
                .fb("exp", term.source_info.span.from_expansion())
                .done();
            blocks.push(
                J::obj()
                    .fb("cleanup", data.is_cleanup)
                    .f("stmts", J::Arr(stmts))
                    .f("term", tj)
                    .done(),
            );
        }

        let (is_unsafe, vis, name) = match kind {
            DefKind::Closure => (false, "closure".to_string(), "{closure}".to_string()),
            _ => {
                let sig = tcx.fn_sig(d).instantiate_identity().skip_norm_wip().skip_binder();
                (sig.safety().is_unsafe(), self.vis(d), tcx.item_name(d).to_string())
            }
        };
        let parent = if kind == DefKind::Closure {
            J::s(self.path(tcx.parent(d)))
        } else {
            J::Null
        };

        J::obj()
            .fs("path", self.path(d))
            .fs("name", name)
            .fs("kind", format!("{:?}", kind))
            .f("closure_parent", parent)
            .fb("unsafe", is_unsafe)
            .fs("vis", vis)
            .f("impl_self_ty", self_ty)
            .f("impl_trait", tr)
            .f("impl_adt", adt)
            .fi("arg_count", body.arg_count as i128)
            .f("locals", J::Arr(locals))
            .f("debug", J::Arr(dbg))
            .f("blocks", J::Arr(blocks))
            .fs("span", self.span(tcx.def_span(d)))
            .done()
    }

    fn promoted_body(&self, did: LocalDefId, idx: u32, body: &Body<'tcx>) -> J {
        let tcx = self.tcx;
        let d = did.to_def_id();
        let env = TypingEnv::post_analysis(tcx, d);
        let mut locals = Vec::new();
        for (_l, decl) in body.local_decls.iter_enumerated() {
            locals.push(J::obj().fs("ty", self.ty_s(decl.ty)).f("tyj", self.tyj(decl.ty, 0)).done());
        }
        let mut blocks = Vec::new();
        for (_bb, data) in body.basic_blocks.iter_enumerated() {
            let mut stmts = Vec::new();
            for st in &data.statements {
                if let StatementKind::Assign(b) = &st.kind {
                    let (place, rv) = &**b;
                    stmts.push(
                        J::obj()
                            .fs("k", "assign")
                            .f("lhs", self.place(body, place))
                            .f("rv", self.rvalue(body, env, rv))
                            .fs("span", self.span(st.source_info.span))
                            .fb("exp", st.source_info.span.from_expansion())
                            .done(),
                    );
                }
            }
            let term = data.terminator();
            let tj = self
                .terminator(body, env, &term.kind)
                .fs("span", self.span(term.source_info.span))
                .fb("exp", term.source_info.span.from_expansion())
                .done();
            blocks.push(J::obj().fb("cleanup", data.is_cleanup).f("stmts", J::Arr(stmts)).f("term", tj).done());
        }
        J::obj()
            .fs("path", format!("{}::promoted[{}]", self.path(d), idx))
            .fs("name", format!("promoted[{}]", idx))
            .fs("kind", "Promoted")
            .f("closure_parent", J::s(self.path(d)))
            .fb("unsafe", false)
            .fs("vis", "promoted")
            .f("impl_self_ty", J::Null)
            .f("impl_trait", J::Null)
            .f("impl_adt", J::Null)
            .fi("arg_count", 0)
            .f("locals", J::Arr(locals))
            .f("debug", J::Arr(Vec::new()))
            .f("blocks", J::Arr(blocks))
            .fs("span", self.span(tcx.def_span(d)))
            .done()
    }

    fn place(&self, body: &Body<'tcx>, p: &Place<'tcx>) -> J {
        let tcx = self.tcx;
        let mut pty = PlaceTy::from_ty(body.local_decls[p.local].ty);
        let mut proj = Vec::new();
        for elem in p.projection.iter() {
            let ej = match elem {
                PlaceElem::Deref => J::obj().fs("k", "deref").done(),
                PlaceElem::Field(f, _) => self.field_elem(pty, f),
                PlaceElem::Index(l) => J::obj().fs("k", "index").fi("local", l.as_u32() as i128).done(),
                PlaceElem::ConstantIndex { offset, min_length, from_end } => J::obj()
                    .fs("k", "constindex")
                    .fi("offset", offset as i128)
                    .fi("min_length", min_length as i128)
                    .fb("from_end", from_end)
                    .done(),
                PlaceElem::Subslice { from, to, from_end } => J::obj()
                    .fs("k", "subslice")
                    .fi("from", from as i128)
                    .fi("to", to as i128)
                    .fb("from_end", from_end)
                    .done(),
                PlaceElem::Downcast(name, vi) => J::obj()
                    .fs("k", "downcast")
                    .f("name", J::opt_s(name.map(|n| n.to_string())))
                    .fi("variant", vi.as_u32() as i128)
                    .done(),
                other => J::obj().fs("k", "other").fs("s", format!("{:?}", other)).done(),
            };
            proj.push(ej);
            pty = pty.projection_ty(tcx, elem);
        }
        J::obj()
            .fi("local", p.local.as_u32() as i128)
            .f("proj", J::Arr(proj))
            .fs("ty", self.ty_s(pty.ty))
            .done()
    }

    fn field_elem(&self, pty: PlaceTy<'tcx>, f: FieldIdx) -> J {
        match pty.ty.kind() {
            TyKind::Adt(adt, _) => {
                let vi = pty.variant_index.unwrap_or(FIRST_VARIANT);
                let v = adt.variant(vi);
                let name = v.fields[f].name.to_string();
                J::obj()
                    .fs("k", "field")
                    .fs("name", name)
                    .fi("idx", f.as_u32() as i128)
                    .fs("adt", self.path(adt.did()))
                    .fs("variant", v.name.to_string())
                    .done()
            }
            TyKind::Tuple(_) => J::obj()
                .fs("k", "field")
                .fs("name", format!("{}", f.as_u32()))
                .fi("idx", f.as_u32() as i128)
                .fs("adt", "(tuple)")
                .done(),
            TyKind::Closure(d, _) => J::obj()
                .fs("k", "field")
                .fs("name", format!("{}", f.as_u32()))
                .fi("idx", f.as_u32() as i128)
                .fs("adt", format!("(closure){}", self.path(*d)))
                .done(),
            _ => J::obj()
                .fs("k", "field")
                .fs("name", format!("{}", f.as_u32()))
                .fi("idx", f.as_u32() as i128)
                .fs("adt", format!("(other){}", self.ty_s(pty.ty)))
                .done(),
        }
    }

    fn operand(&self, body: &Body<'tcx>, env: TypingEnv<'tcx>, op: &Operand<'tcx>) -> J {
        match op {
            Operand::Copy(p) => J::obj().fs("k", "copy").f("place", self.place(body, p)).done(),
            Operand::Move(p) => J::obj().fs("k", "move").f("place", self.place(body, p)).done(),
            Operand::Constant(c) => self.constant(env, &c.const_),
            #[allow(unreachable_patterns)]
            other => J::obj().fs("k", "otherop").fs("s", format!("{:?}", other)).done(),
        }
    }

    fn constant(&self, env: TypingEnv<'tcx>, c: &mir::Const<'tcx>) -> J {
        let tcx = self.tcx;
        let ty = c.ty();
        let mut o = J::obj().fs("k", "const").fs("ty", self.ty_s(ty)).fs("text", format!("{}", c));
        if let TyKind::FnDef(d, args) = ty.kind() {
            o = o.f("fn", self.callee(env, *d, args));
        } else if let Some(s) = c.try_eval_scalar_int(tcx, env) {
            let bits = s.to_bits(s.size());
            o = o.fi("bits", bits as i128);
            if let TyKind::Int(_) = ty.kind() {
                let sz = s.size().bits();
                let v = if sz == 0 {
                    0
                } else {
                    let shift = 128 - sz;
                    ((bits as i128) << shift) >> shift
                };
                o = o.fi("sval", v);
            }
        }
        // named constant?
        if let mir::Const::Unevaluated(u, _) = c {
            o = o.fs("def", self.path(u.def));
            if u.promoted.is_some() {
                o = o.fb("promoted", true);
            }
        }
        o.done()
    }

    fn callee(&self, env: TypingEnv<'tcx>, d: DefId, args: ty::GenericArgsRef<'tcx>) -> J {
        let tcx = self.tcx;
        let targs: Vec<J> = args
            .iter()
            .filter_map(|ga| ga.as_type())
            .map(|t| self.tyj(t, 0))
            .collect();
        let mut o = J::obj()
            .fs("path", self.path(d))
            .fs("name", tcx.item_name(d).to_string())
            .fs("krate", self.krate(d))
            .fb("local", d.is_local())
            .f("targs", J::Arr(targs))
            .fs("full", tcx.def_path_str_with_args(d, args));
        // safety of the callee's signature
        if matches!(tcx.def_kind(d), DefKind::Fn | DefKind::AssocFn) {
            let sig = tcx.fn_sig(d).instantiate_identity().skip_norm_wip().skip_binder();
            o = o.fb("unsafe", sig.safety().is_unsafe());
        } else {
            o = o.fb("unsafe", false).fs("defkind", format!("{:?}", tcx.def_kind(d)));
        }
        // trait method?
        if let Some(tr) = tcx.trait_of_assoc(d) {
            o = o.fs("trait", self.path(tr));
        }
        if let Some(im) = tcx.impl_of_assoc(d) {
            let st = tcx.type_of(im).instantiate_identity().skip_norm_wip();
            o = o.fs("impl_self_ty", self.ty_s(st));
            if let TyKind::Adt(a, _) = st.kind() {
                o = o.fs("impl_adt", self.path(a.did()));
            }
            if let Some(t) = tcx.impl_opt_trait_ref(im) {
                o = o.fs("impl_trait", self.path(t.skip_binder().def_id));
            }
        }
        // resolve through trait dispatch where statically possible
        if let Ok(Some(inst)) = Instance::try_resolve(tcx, env, d, args) {
            let rd = inst.def_id();
            if rd != d {
                o = o
                    .fs("resolved", self.path(rd))
                    .fb("resolved_local", rd.is_local())
                    .fs("resolved_krate", self.krate(rd));
                if let Some(im) = tcx.impl_of_assoc(rd) {
                    let st = tcx.type_of(im).instantiate_identity().skip_norm_wip();
                    o = o.fs("resolved_self_ty", self.ty_s(st));
                    if let TyKind::Adt(a, _) = st.kind() {
                        o = o.fs("resolved_adt", self.path(a.did()));
                    }
                }
            }
            o = o.fs("instance_kind", format!("{:?}", std::mem::discriminant(&inst.def)));
        }
        o.done()
    }

    fn rvalue(&self, body: &Body<'tcx>, env: TypingEnv<'tcx>, rv: &Rvalue<'tcx>) -> J {
        match rv {
            Rvalue::Use(op, ..) => J::obj().fs("k", "use").f("op", self.operand(body, env, op)).done(),
            Rvalue::Repeat(op, n) => J::obj()
                .fs("k", "repeat")
                .f("op", self.operand(body, env, op))
                .fs("n", format!("{}", n))
                .done(),
            Rvalue::Ref(_, bk, p) => J::obj()
                .fs("k", "ref")
                .fb("mut", matches!(bk, mir::BorrowKind::Mut { .. }))
                .f("place", self.place(body, p))
                .done(),
            Rvalue::RawPtr(k, p) => J::obj()
                .fs("k", "rawptr")
                .fs("kind", format!("{:?}", k))
                .f("place", self.place(body, p))
                .done(),
            Rvalue::Cast(kind, op, ty) => J::obj()
                .fs("k", "cast")
                .fs("kind", format!("{:?}", kind))
                .f("op", self.operand(body, env, op))
                .fs("ty", self.ty_s(*ty))
                .fs("from_ty", self.ty_s(op.ty(&body.local_decls, self.tcx)))
                .done(),
            Rvalue::BinaryOp(bop, b) => {
                let (l, r) = &**b;
                J::obj()
                    .fs("k", "binop")
                    .fs("op", format!("{:?}", bop))
                    .f("l", self.operand(body, env, l))
                    .f("r", self.operand(body, env, r))
                    .done()
            }
            Rvalue::UnaryOp(uop, x) => J::obj()
                .fs("k", "unop")
                .fs("op", format!("{:?}", uop))
                .f("x", self.operand(body, env, x))
                .done(),
            Rvalue::Discriminant(p) => {
                J::obj().fs("k", "discr").f("place", self.place(body, p)).done()
            }
            Rvalue::Aggregate(ak, ops) => {
                let mut o = J::obj().fs("k", "aggregate");
                match &**ak {
                    AggregateKind::Adt(d, vi, _, _, _) => {
                        let adt = self.tcx.adt_def(*d);
                        let v = adt.variant(*vi);
                        o = o
                            .fs("akind", "adt")
                            .fs("adt", self.path(*d))
                            .fs("variant", v.name.to_string())
                            .f(
                                "fields",
                                J::Arr(v.fields.iter().map(|f| J::s(f.name.to_string())).collect()),
                            );
                    }
                    AggregateKind::Tuple => o = o.fs("akind", "tuple"),
                    AggregateKind::Array(_) => o = o.fs("akind", "array"),
                    AggregateKind::Closure(d, _) => {
                        o = o.fs("akind", "closure").fs("closure", self.path(*d))
                    }
                    other => o = o.fs("akind", "other").fs("s", format!("{:?}", other)),
                }
                o.f("ops", J::Arr(ops.iter().map(|x| self.operand(body, env, x)).collect()))
                    .done()
            }
            Rvalue::CopyForDeref(p) => {
                J::obj().fs("k", "use").f("op", J::obj().fs("k", "copy").f("place", self.place(body, p)).done()).done()
            }
            other => J::obj().fs("k", "other").fs("s", format!("{:?}", other)).done(),
        }
    }

    fn bb(&self, b: BasicBlock) -> J {
        J::Int(b.as_u32() as i128)
    }

    fn terminator(
        &self,
        body: &Body<'tcx>,
        env: TypingEnv<'tcx>,
        t: &TerminatorKind<'tcx>,
    ) -> crate::json::Ob {
        match t {
            TerminatorKind::Goto { target } => J::obj().fs("k", "goto").f("target", self.bb(*target)),
            TerminatorKind::SwitchInt { discr, targets } => {
                let ts: Vec<J> = targets
                    .iter()
                    .map(|(v, b)| J::Arr(vec![J::Int(v as i128), self.bb(b)]))
                    .collect();
                J::obj()
                    .fs("k", "switch")
                    .f("discr", self.operand(body, env, discr))
                    .fs("discr_ty", self.ty_s(discr.ty(&body.local_decls, self.tcx)))
                    .f("targets", J::Arr(ts))
                    .f("otherwise", self.bb(targets.otherwise()))
            }
            TerminatorKind::Return => J::obj().fs("k", "return"),
            TerminatorKind::Unreachable => J::obj().fs("k", "unreachable"),
            TerminatorKind::UnwindResume => J::obj().fs("k", "resume"),
            TerminatorKind::UnwindTerminate(_) => J::obj().fs("k", "terminate"),
            TerminatorKind::Drop { place, target, .. } => J::obj()
                .fs("k", "drop")
                .f("place", self.place(body, place))
                .f("target", self.bb(*target)),
            TerminatorKind::Call { func, args, destination, target, .. } => {
                let fj = self.operand(body, env, func);
                J::obj()
                    .fs("k", "call")
                    .f("func", fj)
                    .f(
                        "args",
                        J::Arr(args.iter().map(|a| self.operand(body, env, &a.node)).collect()),
                    )
                    .f("dest", self.place(body, destination))
                    .f("target", target.map(|b| self.bb(b)).unwrap_or(J::Null))
            }
            TerminatorKind::TailCall { func, args, .. } => J::obj()
                .fs("k", "tailcall")
                .f("func", self.operand(body, env, func))
                .f(
                    "args",
                    J::Arr(args.iter().map(|a| self.operand(body, env, &a.node)).collect()),
                ),
            TerminatorKind::Assert { cond, expected, msg, target, .. } => {
                let kind = match &**msg {
                    mir::AssertKind::BoundsCheck { .. } => "bounds".to_string(),
                    mir::AssertKind::Overflow(op, ..) => format!("overflow:{:?}", op),
                    mir::AssertKind::OverflowNeg(..) => "overflow:Neg".to_string(),
                    mir::AssertKind::DivisionByZero(..) => "div0".to_string(),
                    mir::AssertKind::RemainderByZero(..) => "rem0".to_string(),
                    other => format!("other:{:?}", std::mem::discriminant(other)),
                };
                let mut o = J::obj()
                    .fs("k", "assert")
                    .f("cond", self.operand(body, env, cond))
                    .fb("expected", *expected)
                    .fs("msg", kind)
                    .f("target", self.bb(*target));
                if let mir::AssertKind::BoundsCheck { len, index } = &**msg {
                    o = o
                        .f("len", self.operand(body, env, len))
                        .f("index", self.operand(body, env, index));
                }
                o
            }
            TerminatorKind::FalseEdge { real_target, .. } => {
                J::obj().fs("k", "goto").f("target", self.bb(*real_target))
            }
            TerminatorKind::FalseUnwind { real_target, .. } => {
                J::obj().fs("k", "goto").f("target", self.bb(*real_target))
            }
            TerminatorKind::InlineAsm { .. } => J::obj().fs("k", "asm"),
            other => J::obj().fs("k", "other").fs("s", format!("{:?}", std::mem::discriminant(other))),
        }
    }
}
