//! daac-facts: a rustc_private driver that type-checks a crate exactly as `cargo check` would and
//! dumps, after analysis, one JSON fact file per crate: items (ADTs, consts, impls, fn signatures)
//! and the MIR of every body with resolved callees, named field projections and evaluated
//! constants.  No code of the analysed crate is executed.
//!
//! Used as RUSTC_WORKSPACE_WRAPPER: argv = [self, rustc, args...].  Facts are written to
//! $DAAC_FACTS_DIR/<crate_name>.<kind>.json in a single write.
#![feature(rustc_private)]
#![allow(clippy::all)]

extern crate rustc_abi;
extern crate rustc_driver;
extern crate rustc_hir;
extern crate rustc_interface;
extern crate rustc_middle;
extern crate rustc_span;

mod json;
mod emit;

use rustc_driver::{Callbacks, Compilation};
use rustc_interface::interface::Compiler;
use rustc_middle::ty::TyCtxt;

struct Cb;

impl Callbacks for Cb {
    fn after_analysis<'tcx>(&mut self, _c: &Compiler, tcx: TyCtxt<'tcx>) -> Compilation {
        emit::emit(tcx);
        Compilation::Continue
    }
}

fn main() {
    let mut args: Vec<String> = std::env::args().collect();
    // RUSTC_WORKSPACE_WRAPPER: argv[1] is the real rustc path.
    if args.len() > 1 && (args[1].ends_with("rustc") || args[1].contains("/rustc")) {
        args.remove(1);
    }
    let mut cb = Cb;
    rustc_driver::run_compiler(&args, &mut cb);
}
