//! Minimal JSON value + writer (the driver has no cargo dependencies).
use std::fmt::Write;

#[derive(Clone, Debug)]
pub enum J {
    Null,
    Bool(bool),
    Int(i128),
    Str(String),
    Arr(Vec<J>),
    Obj(Vec<(String, J)>),
}

impl J {
    pub fn s<T: Into<String>>(x: T) -> J {
        J::Str(x.into())
    }
    pub fn obj() -> Ob {
        Ob(Vec::new())
    }
    pub fn opt_s(x: Option<String>) -> J {
        match x {
            Some(s) => J::Str(s),
            None => J::Null,
        }
    }
    pub fn write(&self, out: &mut String) {
        match self {
            J::Null => out.push_str("null"),
            J::Bool(b) => out.push_str(if *b { "true" } else { "false" }),
            J::Int(i) => {
                // JSON numbers beyond 2^53 lose precision in some readers; Python is exact.
                let _ = write!(out, "{}", i);
            }
            J::Str(s) => write_str(s, out),
            J::Arr(a) => {
                out.push('[');
                for (i, x) in a.iter().enumerate() {
                    if i > 0 {
                        out.push(',');
                    }
                    x.write(out);
                }
                out.push(']');
            }
            J::Obj(o) => {
                out.push('{');
                for (i, (k, v)) in o.iter().enumerate() {
                    if i > 0 {
                        out.push(',');
                    }
                    write_str(k, out);
                    out.push(':');
                    v.write(out);
                }
                out.push('}');
            }
        }
    }
}

pub struct Ob(Vec<(String, J)>);

impl Ob {
    pub fn f<K: Into<String>>(mut self, k: K, v: J) -> Self {
        self.0.push((k.into(), v));
        self
    }
    pub fn fs<K: Into<String>, V: Into<String>>(self, k: K, v: V) -> Self {
        self.f(k, J::Str(v.into()))
    }
    pub fn fi<K: Into<String>>(self, k: K, v: i128) -> Self {
        self.f(k, J::Int(v))
    }
    pub fn fb<K: Into<String>>(self, k: K, v: bool) -> Self {
        self.f(k, J::Bool(v))
    }
    pub fn done(self) -> J {
        J::Obj(self.0)
    }
}

fn write_str(s: &str, out: &mut String) {
    out.push('"');
    for c in s.chars() {
        match c {
            '"' => out.push_str("\\\""),
            '\\' => out.push_str("\\\\"),
            '\n' => out.push_str("\\n"),
            '\r' => out.push_str("\\r"),
            '\t' => out.push_str("\\t"),
            c if (c as u32) < 0x20 => {
                let _ = write!(out, "\\u{:04x}", c as u32);
            }
            c => out.push(c),
        }
    }
    out.push('"');
}
