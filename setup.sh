#!/bin/sh
# Build the fact extractor (rustc_private driver, no cargo dependencies) offline.
set -e
cd "$(dirname "$0")/driver"
CARGO_NET_OFFLINE=true cargo +nightly build --release --offline 2>&1 | tail -3
test -x target/release/daac-facts
echo "setup ok"
