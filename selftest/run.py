#!/usr/bin/env python3
"""Checker self-test (DESIGN §6): every seeded breakage must make the named rule fire, every benign
refactor must leave all rules silent.  Specs live in mutants.json / benign.json as textual
replacements (file, old, new, nth); unified diffs are regenerated into mutants/ and benign/ for the
record.  Scratch copies live under $TMPDIR and are removed.  Nothing here runs code of /repo
except with --verify (cargo test on the scratch copy, used once when a spec is written).

usage: selftest/run.py [--only substr] [--verify] [--benign] [--props C01,C02] [-j N] [--write-diffs]
"""
import concurrent.futures
import difflib
import json
import os
import shutil
import subprocess
import sys
import tempfile

HERE = os.path.dirname(os.path.abspath(__file__))
VERIF = os.path.dirname(HERE)
sys.path.insert(0, VERIF)
REPO = os.environ.get("DAAC_REPO", "/repo")


def scratch_copy():
    tmp = tempfile.mkdtemp(prefix="daacmut-")
    dst = os.path.join(tmp, "repo")
    shutil.copytree(REPO, dst, ignore=shutil.ignore_patterns("target", ".git"))
    return tmp, dst


def apply_spec(dst, spec):
    edits = spec.get("edits") or [spec]
    diffs = []
    for e in edits:
        p = os.path.join(dst, e["file"])
        with open(p) as f:
            src = f.read()
        nth = e.get("nth", 1)
        idx = -1
        start = 0
        for _ in range(nth):
            idx = src.find(e["old"], start)
            if idx < 0:
                return None
            start = idx + 1
        new = src[:idx] + e["new"] + src[idx + len(e["old"]):]
        with open(p, "w") as f:
            f.write(new)
        diffs.append("".join(difflib.unified_diff(src.splitlines(True), new.splitlines(True),
                                                  "a/" + e["file"], "b/" + e["file"])))
    return "".join(diffs)


def run_one(spec, verify=False, props_filter=None):
    from rules import core, engine, roles as roles_mod, props
    tmp, dst = scratch_copy()
    try:
        d = apply_spec(dst, spec)
        if d is None:
            return spec["name"], "skipped", "pattern not found", None
        res = {}
        if verify:
            p = subprocess.run(["cargo", "test", "--workspace", "--offline", "-q"], cwd=dst, capture_output=True, text=True,
                               env=dict(os.environ, CARGO_TARGET_DIR=os.path.join(tmp, "tt")))
            if p.returncode != 0:
                return spec["name"], "invalid", "mutant does not compile or fails the pinned suite:\n" + (p.stdout + p.stderr)[-1500:], d
        plist = spec.get("props") or [spec["name"].split("-")[0]]
        if props_filter:
            plist = [p for p in plist if p in props_filter] or plist
        need_ws = any(props.PROPS[p][1] for p in plist if p in props.PROPS)
        try:
            crates = core.extract(repo=dst, workspace=need_ws)
            props.normalise(crates)
        except SystemExit as e:
            return spec["name"], "invalid", "extraction failed: %s" % e, d
        fired = {}
        for pr in plist:
            if pr not in props.PROPS:
                continue
            ctx = engine.Ctx(pr, crates)
            R = roles_mod.Roles(ctx)
            props.PROPS[pr][0](ctx, R)
            v = [o for o in ctx.obl if o["status"] == "violation"]
            known = {k["key"] for k in engine.load_known() if k.get("status") == "known"}
            v = [o for o in v if o["key"] not in known]
            fired[pr] = v
        return spec["name"], "ran", fired, d
    finally:
        shutil.rmtree(tmp, ignore_errors=True)


def run_patch(patch_path, plist):
    """apply a unified diff to a scratch copy of /repo and run the given properties' rules: {prop: [violation keys]} or None"""
    from rules import core, engine, roles as roles_mod, props
    tmp, dst = scratch_copy()
    try:
        p = subprocess.run("patch -s -p1 < %s" % patch_path, cwd=dst, shell=True, capture_output=True, text=True)
        if p.returncode != 0:
            return None
        need_ws = any(props.PROPS[q][1] for q in plist if q in props.PROPS)
        try:
            crates = core.extract(repo=dst, workspace=need_ws)
            props.normalise(crates)
        except SystemExit:
            return None
        known = {k["key"] for k in engine.load_known() if k.get("status") == "known"}
        out = {}
        for pr in plist:
            ctx = engine.Ctx(pr, crates)
            R = roles_mod.Roles(ctx)
            try:
                props.PROPS[pr][0](ctx, R)
            except Exception as e:
                out[pr] = ["CRASH:%r" % (e,)]
                continue
            out[pr] = sorted(o["key"] for o in ctx.obl if o["status"] == "violation" and o["key"] not in known)
        return out
    finally:
        shutil.rmtree(tmp, ignore_errors=True)


def main():
    args = sys.argv[1:]
    only = None
    verify = "--verify" in args
    benign = "--benign" in args
    write = "--write-diffs" in args
    jobs = 8
    pf = None
    for i, a in enumerate(args):
        if a == "--only":
            only = args[i + 1]
        if a == "-j":
            jobs = int(args[i + 1])
        if a == "--props":
            pf = args[i + 1].split(",")
    fn = os.path.join(HERE, "benign.json" if benign else "mutants.json")
    with open(fn) as f:
        specs = json.load(f)
    if only:
        specs = [s for s in specs if only in s["name"]]
    outdir = os.path.join(HERE, "benign" if benign else "mutants")
    os.makedirs(outdir, exist_ok=True)
    bad = 0
    with concurrent.futures.ProcessPoolExecutor(max_workers=jobs) as ex:
        futs = [ex.submit(run_one, s, verify, pf) for s in specs]
        byname = {s["name"]: s for s in specs}
        for fut in futs:
            name, status, res, d = fut.result()
            spec = byname[name]
            if write and d:
                with open(os.path.join(outdir, name + ".diff"), "w") as f:
                    f.write(d)
            if status != "ran":
                print("%-40s %s: %s" % (name, status.upper(), res))
                bad += 1
                continue
            for pr, v in res.items():
                rules = sorted({o["rule"] for o in v})
                if benign:
                    if v:
                        bad += 1
                        print("%-40s %s FALSE-ALARM %s" % (name, pr, rules))
                        for o in v[:4]:
                            print("      ", o["rule"], o["fn"], o["role"], o["detail"][:200])
                    else:
                        print("%-40s %s silent" % (name, pr))
                else:
                    want = spec.get("rule")
                    if not v:
                        bad += 1
                        print("%-40s %s MISSED" % (name, pr))
                    elif want and not any(r.startswith(want) for r in rules):
                        print("%-40s %s fired-other %s (wanted %s)" % (name, pr, rules, want))
                    else:
                        print("%-40s %s fired %s" % (name, pr, rules))
    return 1 if bad else 0


if __name__ == "__main__":
    sys.exit(main())
