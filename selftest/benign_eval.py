#!/usr/bin/env python3
"""Run all checks against a behaviour-preserving refactoring (patch.diff in <dir>): every rule must stay silent.
usage: selftest/benign_eval.py <dir> [--verify] [--keep]
--verify: also run `cargo test --workspace --offline` on the patched scratch copy (must pass).
--keep:   copy to /verif/selftest/benign_patches/<name>/ with the outcome in meta.json."""
import json
import os
import shutil
import subprocess
import sys
import tempfile

HERE = os.path.dirname(os.path.abspath(__file__))
VERIF = os.path.dirname(HERE)
sys.path.insert(0, VERIF)


def main():
    import signal
    signal.alarm(2400)      # never hang a batch run: a stuck evaluation is killed (and shows up as a missing result line)
    d = os.path.abspath(sys.argv[1])
    name = os.path.basename(d.rstrip("/"))
    patch = os.path.join(d, "patch.diff")
    tmp = tempfile.mkdtemp(prefix="daacbenign-")
    dst = os.path.join(tmp, "repo")
    try:
        shutil.copytree("/repo", dst, ignore=shutil.ignore_patterns("target", ".git"))
        p = subprocess.run("patch -p1 < %s" % patch, cwd=dst, shell=True, capture_output=True, text=True)
        if p.returncode != 0:
            print(name, "PATCH-DOES-NOT-APPLY", p.stdout[-300:])
            return 2
        suite = None
        if "--verify" in sys.argv:
            env = dict(os.environ, CARGO_TARGET_DIR=os.path.join(tmp, "target"))
            p = subprocess.run("cargo test --workspace --offline 2>&1 | grep -E '^test result|FAILED|^error'", cwd=dst, shell=True,
                               capture_output=True, text=True, env=env)
            suite = "FAILED" not in p.stdout and "error" not in p.stdout and "test result: ok" in p.stdout
            if not suite:
                print(name, "SUITE-FAILS", p.stdout[-300:])
                return 2
        from rules import core, engine, roles as roles_mod, props
        try:
            crates = core.extract(repo=dst, workspace=True)
            props.normalise(crates)
        except SystemExit as e:
            print(name, "EXTRACTION-FAILED", e)
            return 2
        alarms = {}
        known = {k["key"] for k in engine.load_known() if k.get("status") == "known"}      # recorded findings are not alarms
        for pr in sorted(p for p in props.PROPS if p.startswith("C")):
            ctx = engine.Ctx(pr, crates)
            R = roles_mod.Roles(ctx)
            try:
                props.PROPS[pr][0](ctx, R)
            except Exception as e:
                alarms[pr] = ["CRASH:%r" % e]
                continue
            v = [o for o in ctx.obl if o["status"] == "violation" and o["key"] not in known]
            if v:
                alarms[pr] = sorted({"%s@%s:%s" % (o["rule"], o["fn"].split("::")[-1], o["role"]) for o in v})
        print("%-16s %s %s" % (name, "silent" if not alarms else "FALSE-ALARM", json.dumps(alarms) if alarms else ""))
        if "--keep" in sys.argv:
            out = os.path.join(VERIF, "selftest", "benign_patches", name)
            os.makedirs(out, exist_ok=True)
            for fn in os.listdir(d):
                shutil.copy(os.path.join(d, fn), os.path.join(out, fn))
            mp = os.path.join(out, "meta.json")
            meta = json.load(open(mp)) if os.path.exists(mp) else {}
            meta["checks"] = {"alarms": alarms, "suite_passes_patched": suite}
            json.dump(meta, open(mp, "w"), indent=1)
        return 1 if alarms else 0
    finally:
        shutil.rmtree(tmp, ignore_errors=True)


if __name__ == "__main__":
    sys.exit(main())
