#!/usr/bin/env python3
"""Systematic single-token mutation sweep (checker self-test, not a property check).

For every mutation site in /repo's library + CLI sources (operators, constants, off-by-ones, swapped siblings) a scratch copy
is mutated; mutants that still COMPILE and PASS the pinned suite (`cargo test --workspace --offline --lib --tests --bins`,
i.e. the 74 unit/integration tests; doc tests are not part of the pinned command) are the interesting ones: the static
checks are then run on them.  A surviving mutant that no check reports is either an equivalent mutant or a gap in the rules;
both are listed for triage.

usage: selftest/mutgen.py [--files a.rs,b.rs] [-j N] [--limit N] [--out report.json] [--resume report.json] [--recheck-survivors report.json]
Scratch copies live under $TMPDIR (one per worker, target dir reused for incremental builds) and are removed at the end."""
import concurrent.futures
import json
import os
import re
import shutil
import subprocess
import sys
import tempfile

HERE = os.path.dirname(os.path.abspath(__file__))
VERIF = os.path.dirname(HERE)
sys.path.insert(0, VERIF)
REPO = "/repo"
FILES = ["src/nfa_builder.rs", "src/build_helper.rs", "src/bytewise/builder.rs", "src/charwise/builder.rs", "src/charwise/mapper.rs",
         "src/bytewise.rs", "src/charwise.rs", "src/bytewise/iter.rs", "src/charwise/iter.rs", "src/lib.rs", "src/intpack.rs",
         "src/serializer.rs", "src/utils.rs", "daacfind/src/main.rs"]

# (regex, replacement) single-token operators; applied per occurrence
OPS = [
    (r" <= ", " < "), (r" < ", " <= "), (r" >= ", " > "), (r" > ", " >= "),
    (r"==", "!="), (r"!=", "=="), (r"&&", "||"), (r"\|\|", "&&"),
    (r"\+ 1\b", "+ 0"), (r"- 1\b", "- 0"), (r"\+ 1\b", "+ 2"), (r"\+=", "-="), (r"-=", "+="),
    (r"\bROOT_STATE_IDX\b", "DEAD_STATE_IDX"), (r"\bDEAD_STATE_IDX\b", "ROOT_STATE_IDX"),
    (r"\bROOT_STATE_ID\b", "DEAD_STATE_ID"), (r"\bDEAD_STATE_ID\b", "ROOT_STATE_ID"),
    (r"\.0\b", ".1"), (r"\.1\b", ".0"),
    (r"\bnext\(\)", "prev()"), (r"\bprev\(\)", "next()"), (r"\bnext_mut\(\)", "prev_mut()"), (r"\bprev_mut\(\)", "next_mut()"),
    (r"\bis_used_index\b", "is_used_base"), (r"\bis_used_base\b", "is_used_index"),
    (r"\buse_index\b", "use_base"),
    (r"\bbreak\b", "continue"), (r"\bcontinue\b", "break"),
    (r"\bSome\(", "None.or(Some("),   # placeholder, filtered below (needs balanced edit) – skipped
    (r"\^", "|"), (r"<< 6", "<< 5"), (r"<< 8", "<< 7"), (r">> 8", ">> 7"), (r"0x3f", "0x1f"), (r"0x80\b", "0x7f"),
    (r"\bblock_len\b", "num_free_blocks"), (r"\bnum_blocks\b", "num_free_blocks"),
    (r"\bold_len\b", "new_len"), (r"\bnew_len\b", "old_len"),
    (r"\bfail_id\b", "state_id"), (r"\bchild_id\b", "state_id"), (r"\bchild_idx\b", "state_idx"),
    (r"\bstart\(\)", "end()"), (r"\bend\(\)", "start()"),
    (r"\.is_some\(\)", ".is_none()"), (r"\.is_none\(\)", ".is_some()"), (r"\.is_empty\(\)", ".is_empty() == false"),
    (r"!self\.", "self."), (r"\bif !", "if "),
    (r"\bu8::MAX\b", "u8::MIN"), (r"\bpos \+ 1\b", "pos"), (r"\blen\(\) \+ 1\b", "len()"),
    (r"\btrue\b", "false"), (r"\bfalse\b", "true"),
]
OPS = [o for o in OPS if "None.or" not in o[1]]


def code_regions(src):
    """line indices that are library code: not doc comments, not inside `#[cfg(test)] mod tests { … }`"""
    lines = src.split("\n")
    ok = []
    in_test = False
    depth = 0
    for i, l in enumerate(lines):
        s = l.strip()
        if s.startswith("#[cfg(test)]"):
            in_test = True
            depth = 0
            continue
        if in_test:
            depth += l.count("{") - l.count("}")
            if depth <= 0 and "}" in l and l.startswith("}"):
                in_test = False
            continue
        if s.startswith("//") or s.startswith("#[") or s.startswith("use ") or s.startswith("pub use "):
            continue
        if re.match(r"^(pub(\([a-z]+\))? )?(unsafe )?(const )?(fn|type|struct|enum|impl|trait|mod|where)\b", s) or s.endswith(",") and ":" in s and "(" not in s and "=" not in s:
            continue
        if "assert" in s and "debug_assert" in s:
            continue
        ok.append(i)
    return lines, ok


def enumerate_mutants(files):
    out = []
    for f in files:
        src = open(os.path.join(REPO, f)).read()
        lines, ok = code_regions(src)
        for i in ok:
            line = lines[i]
            code = line.split("//")[0]
            for rx, rep in OPS:
                for mo in re.finditer(rx, code):
                    new = code[:mo.start()] + rep + code[mo.end():] + line[len(code):]
                    if new != line:
                        out.append({"file": f, "line": i + 1, "old": line, "new": new, "op": "%s -> %s" % (rx, rep)})
    # dedupe
    seen = set()
    uniq = []
    for m in out:
        k = (m["file"], m["line"], m["new"])
        if k not in seen:
            seen.add(k)
            uniq.append(m)
    return uniq


WORK = {}


def worker_dir(tmp_root):
    pid = os.getpid()
    if pid not in WORK:
        d = os.path.join(tmp_root, "w%d" % pid)
        shutil.copytree(REPO, os.path.join(d, "repo"), ignore=shutil.ignore_patterns("target", ".git"))
        WORK[pid] = d
    return WORK[pid]


def run_mutant(args):
    m, tmp_root = args
    d = worker_dir(tmp_root)
    repo = os.path.join(d, "repo")
    path = os.path.join(repo, m["file"])
    orig = open(os.path.join(REPO, m["file"])).read()
    lines = orig.split("\n")
    lines[m["line"] - 1] = m["new"]
    res = dict(m)
    try:
        with open(path, "w") as f:
            f.write("\n".join(lines))
        env = dict(os.environ, CARGO_TARGET_DIR=os.path.join(d, "target"), CARGO_NET_OFFLINE="true")
        try:
            p = subprocess.run("cargo test --workspace --offline --lib --tests --bins -q 2>&1 | tail -30", cwd=repo, shell=True,
                               capture_output=True, text=True, env=env, timeout=240)
            out = p.stdout
        except subprocess.TimeoutExpired:
            res["status"] = "killed-by-tests(timeout)"
            subprocess.run("pkill -f %s" % os.path.join(d, "target"), shell=True)
            return res
        if "error" in out and ("could not compile" in out or "error[" in out or "error:" in out):
            res["status"] = "does-not-compile"
            return res
        if "FAILED" in out or "panicked" in out or "test result: ok" not in out:
            res["status"] = "killed-by-tests"
            return res
        # survivor: run the static checks
        from rules import core, engine, roles as roles_mod, props
        try:
            crates = core.extract(repo=repo, workspace=True)
            props.normalise(crates)
        except SystemExit as e:
            res["status"] = "extraction-failed"
            return res
        caught = {}
        known = {k["key"] for k in engine.load_known() if k.get("status") == "known"}
        for pr in sorted(p for p in props.PROPS if p.startswith("C")):
            ctx = engine.Ctx(pr, crates)
            R = roles_mod.Roles(ctx)
            try:
                props.PROPS[pr][0](ctx, R)
            except Exception as e:
                caught[pr] = ["CRASH:%r" % (e,)]
                continue
            v = [o for o in ctx.obl if o["status"] == "violation" and o["key"] not in known]
            if v:
                caught[pr] = sorted({o["rule"] for o in v})
        res["status"] = "survivor-caught" if caught else "survivor-MISSED"
        res["caught_by"] = caught
        return res
    finally:
        with open(path, "w") as f:
            f.write(orig)


def main():
    args = sys.argv[1:]
    files = FILES
    jobs = 8
    limit = None
    outp = os.path.join(VERIF, "selftest", "mutgen_report.json")
    done = {}
    for i, a in enumerate(args):
        if a == "--files":
            files = args[i + 1].split(",")
        if a == "-j":
            jobs = int(args[i + 1])
        if a == "--limit":
            limit = int(args[i + 1])
        if a == "--out":
            outp = args[i + 1]
        if a == "--resume" and os.path.exists(args[i + 1]):
            for r in json.load(open(args[i + 1]))["mutants"]:
                done[(r["file"], r["line"], r["new"])] = r
        if a == "--recheck-survivors" and os.path.exists(args[i + 1]):
            # keep every verdict of an earlier sweep except the survivors no check reported: those are run again
            for r in json.load(open(args[i + 1]))["mutants"]:
                if r["status"] != "survivor-MISSED":
                    done[(r["file"], r["line"], r["new"])] = r
    muts = enumerate_mutants(files)
    if limit:
        import random
        random.Random(int(os.environ.get("VERIF_SEED", "0") or 0)).shuffle(muts)
        muts = muts[:limit]
    todo = [m for m in muts if (m["file"], m["line"], m["new"]) not in done]
    print("mutation sites: %d (%d to run)" % (len(muts), len(todo)))
    tmp_root = tempfile.mkdtemp(prefix="daacmutgen-")
    results = list(done.values())
    try:
        with concurrent.futures.ProcessPoolExecutor(max_workers=jobs) as ex:
            for k, r in enumerate(ex.map(run_mutant, [(m, tmp_root) for m in todo], chunksize=1)):
                results.append(r)
                if r["status"].startswith("survivor"):
                    print("%s:%d  %s  %s  %s" % (r["file"], r["line"], r["status"], r["new"].strip()[:90], json.dumps(r.get("caught_by", {}))[:120]))
                if k % 25 == 0:
                    json.dump({"mutants": results}, open(outp, "w"), indent=0)
    finally:
        shutil.rmtree(tmp_root, ignore_errors=True)
    json.dump({"mutants": results}, open(outp, "w"), indent=0)
    import collections
    # survivors that no check reports and that were triaged by hand as equivalent w.r.t. the properties (mutgen_triage.json:
    # file + mutated line text + reason) are counted separately; any other unreported survivor is a gap
    tri = {}
    tp = os.path.join(HERE, "mutgen_triage.json")
    if os.path.exists(tp):
        for t in json.load(open(tp)):
            tri[(t["file"], t["new"].strip())] = t["reason"]
    for r in results:
        if r["status"] == "survivor-MISSED" and (r["file"], r["new"].strip()) in tri:
            r["status"] = "survivor-equivalent"
            r["reason"] = tri[(r["file"], r["new"].strip())]
    json.dump({"mutants": results}, open(outp, "w"), indent=0)
    c = collections.Counter(r["status"] for r in results)
    print(dict(c))
    return 1 if c.get("survivor-MISSED") else 0


if __name__ == "__main__":
    sys.exit(main())
