#!/usr/bin/env python3
"""Checker self-test: seeded breakages ON TOP OF behaviour-preserving refactorings.

The rules were generalised so that the refactorings in benign_patches/ stay silent; this run checks that the generalisation
did not blind them: for every benign patch P and every mutant spec M (mutants.json) that touches a file P touches and still
applies textually after P, the tree P+M must make M's rule (or at least M's property) fire.

usage: selftest/compound.py [-j N] [--only substr]
Scratch copies live under $TMPDIR and are removed; nothing of /repo is executed."""
import concurrent.futures
import json
import os
import re
import shutil
import subprocess
import sys
import tempfile

HERE = os.path.dirname(os.path.abspath(__file__))
VERIF = os.path.dirname(HERE)
sys.path.insert(0, VERIF)
sys.path.insert(0, HERE)
import run as runmod  # noqa: E402


def files_of_patch(p):
    return set(re.findall(r"^\+\+\+ b/(\S+)", open(p).read(), re.M))


def one(job):
    pname, spec = job
    from rules import core, engine, roles as roles_mod, props
    tmp = tempfile.mkdtemp(prefix="daaccomp-")
    dst = os.path.join(tmp, "repo")
    try:
        shutil.copytree("/repo", dst, ignore=shutil.ignore_patterns("target", ".git"))
        patch = os.path.join(HERE, "benign_patches", pname, "patch.diff")
        p = subprocess.run("patch -s -p1 < %s" % patch, cwd=dst, shell=True, capture_output=True, text=True)
        if p.returncode != 0:
            return pname, spec["name"], "patch-failed", None
        if runmod.apply_spec(dst, spec) is None:
            return pname, spec["name"], "n/a", None
        plist = spec.get("props") or [spec["name"].split("-")[0]]
        need_ws = any(props.PROPS[q][1] for q in plist if q in props.PROPS)
        try:
            crates = core.extract(repo=dst, workspace=need_ws)
            props.normalise(crates)
        except SystemExit:
            return pname, spec["name"], "does-not-compile", None
        fired = set()
        known = {k["key"] for k in engine.load_known() if k.get("status") == "known"}
        for pr in plist:
            if pr not in props.PROPS:
                continue
            ctx = engine.Ctx(pr, crates)
            R = roles_mod.Roles(ctx)
            try:
                props.PROPS[pr][0](ctx, R)
            except Exception as e:
                fired.add("CRASH:%r" % (e,))
                continue
            fired |= {o["rule"] for o in ctx.obl if o["status"] == "violation" and o["key"] not in known}
        return pname, spec["name"], "fired" if fired else "MISSED", sorted(fired)
    finally:
        shutil.rmtree(tmp, ignore_errors=True)


def main():
    args = sys.argv[1:]
    jobs = 8
    only = None
    for i, a in enumerate(args):
        if a == "-j":
            jobs = int(args[i + 1])
        if a == "--only":
            only = args[i + 1]
    specs = json.load(open(os.path.join(HERE, "mutants.json")))
    work = []
    for pname in sorted(os.listdir(os.path.join(HERE, "benign_patches"))):
        pf = os.path.join(HERE, "benign_patches", pname, "patch.diff")
        if not os.path.exists(pf):
            continue
        touched = files_of_patch(pf)
        for s in specs:
            sfiles = {e["file"] for e in (s.get("edits") or [s])}
            if sfiles & touched and (only is None or only in pname or only in s["name"]):
                work.append((pname, s))
    print("compound cases to try: %d" % len(work))
    res = {"fired": 0, "MISSED": 0, "n/a": 0, "does-not-compile": 0, "patch-failed": 0}
    missed = []
    with concurrent.futures.ProcessPoolExecutor(max_workers=jobs) as ex:
        for pname, sname, status, fired in ex.map(one, work, chunksize=1):
            res[status] += 1
            if status == "MISSED":
                missed.append((pname, sname))
                print("%-14s + %-40s MISSED" % (pname, sname))
    print(res)
    json.dump({"summary": res, "missed": missed}, open(os.path.join(HERE, "compound_report.json"), "w"), indent=1)
    return 1 if missed else 0


if __name__ == "__main__":
    sys.exit(main())
