#!/usr/bin/env python3
"""Confirm a seeded defect produced by a sub-agent and run the checks against it.

usage: selftest/seed_eval.py <seed_dir> [--no-confirm] [--keep]     (seed_dir holds patch.diff, demo.rs|demo.sh, meta.json)

Confirmation (scratch copy of /repo outside /repo and /verif, removed afterwards):
  1. patch applies;  2. `cargo test --workspace --offline` passes with the patch;
  3. the demo fails with the patch;  4. the demo passes without it.
Then: facts are extracted from the patched scratch copy and every property's rules are run; the
properties/rules that fire are printed.  With --keep the seed is copied to /verif/seeded/<id>/ with the
outcome recorded in meta.json."""
import json
import os
import shutil
import subprocess
import sys
import tempfile

HERE = os.path.dirname(os.path.abspath(__file__))
VERIF = os.path.dirname(HERE)
sys.path.insert(0, VERIF)
REPO = "/repo"


def sh(cmd, cwd, env=None, timeout=1800):
    p = subprocess.run(cmd, cwd=cwd, shell=True, capture_output=True, text=True, env=env, timeout=timeout)
    return p.returncode, (p.stdout + p.stderr)


def main():
    import signal
    signal.alarm(2400)      # never hang a batch run: a stuck evaluation is killed (and shows up as a missing result line)
    seed = os.path.abspath(sys.argv[1])
    refresh = "--refresh" in sys.argv      # re-score an already kept seed: only meta.json's `checks` is rewritten
    confirm = "--no-confirm" not in sys.argv and not refresh
    keep = "--keep" in sys.argv
    sid = os.path.basename(seed.rstrip("/"))
    patch = os.path.join(seed, "patch.diff")
    meta = json.load(open(os.path.join(seed, "meta.json")))
    tmp = tempfile.mkdtemp(prefix="daacseed-")
    dst = os.path.join(tmp, "repo")
    ran = []
    try:
        shutil.copytree(REPO, dst, ignore=shutil.ignore_patterns("target", ".git"))
        env = dict(os.environ, CARGO_TARGET_DIR=os.path.join(tmp, "target"), CARGO_NET_OFFLINE="true")
        rc, out = sh("patch -p1 --dry-run < %s" % patch, dst)
        if rc != 0:
            print(sid, "PATCH-DOES-NOT-APPLY", out[-500:])
            return 2
        result = {"applies": True}
        demo_rs = os.path.join(seed, "demo.rs")
        demo_sh = os.path.join(seed, "demo.sh")
        if confirm:
            def run_demo():
                if os.path.exists(demo_rs):
                    shutil.copy(demo_rs, os.path.join(dst, "tests", "demo_seed.rs"))
                    rc, out = sh("cargo test --offline --test demo_seed 2>&1 | tail -15", dst, env)
                    passed = "test result: ok" in out and "FAILED" not in out and "error" not in out.split("test result")[0][-200:]
                    os.remove(os.path.join(dst, "tests", "demo_seed.rs"))
                    return passed, out[-600:]
                else:
                    env2 = dict(env)
                    env2.pop("CARGO_TARGET_DIR", None)     # the script runs target/debug/daacfind of the scratch copy
                    rc, out = sh("sh %s" % demo_sh, dst, env2)
                    return rc == 0, out[-600:]
            ok0, out0 = run_demo()
            ran.append("unpatched: demo -> %s" % ("pass" if ok0 else "FAIL"))
            sh("patch -p1 < %s" % patch, dst)
            rc, out = sh("cargo test --workspace --offline 2>&1 | grep -E '^test result|FAILED|^error' ", dst, env)
            suite_ok = "FAILED" not in out and "error" not in out and "test result: ok" in out
            npass = sum(int(l.split()[3]) for l in out.splitlines() if l.startswith("test result: ok"))
            ran.append("patched: cargo test --workspace --offline -> %s (%d passed)" % ("pass" if suite_ok else "FAIL", npass))
            ok1, out1 = run_demo()
            ran.append("patched: demo -> %s" % ("pass" if ok1 else "fail (as required)"))
            result.update({"demo_passes_unpatched": ok0, "suite_passes_patched": suite_ok, "suite_tests_passed": npass,
                           "demo_fails_patched": not ok1})
            confirmed = ok0 and suite_ok and not ok1
            result["confirmed"] = confirmed
            if not confirmed:
                print(sid, "NOT-CONFIRMED", ran, out1[-300:] if ok1 else "", out0[-300:] if not ok0 else "")
        else:
            sh("patch -p1 < %s" % patch, dst)
        # ---- run the checks on the patched copy
        from rules import core, engine, roles as roles_mod, props
        try:
            crates = core.extract(repo=dst, workspace=True)
            props.normalise(crates)
        except SystemExit as e:
            print(sid, "EXTRACTION-FAILED", e)
            return 2
        known = {k["key"] for k in engine.load_known() if k.get("status") == "known"}
        caught = {}
        for pr in sorted(p for p in props.PROPS if p.startswith("C")):
            ctx = engine.Ctx(pr, crates)
            R = roles_mod.Roles(ctx)
            try:
                props.PROPS[pr][0](ctx, R)
            except Exception as e:  # a crash of a rule on a mutated tree is reported, not hidden
                caught[pr] = ["CRASH:%s" % e]
                continue
            v = [o for o in ctx.obl if o["status"] == "violation" and o["key"] not in known]
            if v:
                caught[pr] = sorted({"%s@%s" % (o["rule"], o["fn"].split("::")[-1]) for o in v})
        target = meta.get("property")
        hit = target in caught
        print("%-8s target=%s %s   caught_by: %s" % (sid, target, "CAUGHT" if hit else ("caught-elsewhere" if caught else "MISSED"),
                                                     json.dumps(caught)))
        result["caught_by"] = caught
        result["caught_by_target_property"] = hit
        if refresh:
            meta["checks"] = {"caught_by": caught, "caught_by_target_property": hit}
            json.dump(meta, open(os.path.join(seed, "meta.json"), "w"), indent=1)
        if keep and (not confirm or result.get("confirmed")):
            out_dir = os.path.join(VERIF, "seeded", sid)
            os.makedirs(out_dir, exist_ok=True)
            for fn in os.listdir(seed):
                shutil.copy(os.path.join(seed, fn), os.path.join(out_dir, fn))
            meta["confirmation"] = {"ran": ran, **{k: v for k, v in result.items() if k not in ("caught_by",)}}
            meta["checks"] = {"caught_by": caught, "caught_by_target_property": hit}
            json.dump(meta, open(os.path.join(out_dir, "meta.json"), "w"), indent=1)
        return 0
    finally:
        shutil.rmtree(tmp, ignore_errors=True)


if __name__ == "__main__":
    sys.exit(main())
