//! Type-level witnesses for /repo (daachorse), seen as an *external* crate sees it.
//!
//! Every item is a pair: a `compile_fail,Exxxx` doctest whose offending line must be rejected by
//! rustc with exactly that error code, and a `no_run` twin that differs only by that line and
//! must compile.  Nothing is executed (`no_run`): the verdict is the type checker's.
//! Run with `cargo +nightly test --doc --offline` (error codes are only checked on nightly).

/// SAFE-API (C07): the char-wise byte-iterator entry points are `unsafe fn`.
///
/// ```compile_fail,E0133
/// let pma = daachorse::CharwiseDoubleArrayAhoCorasick::<u32>::new(["a"]).unwrap();
/// let _ = pma.find_iter_from_iter("a".bytes());
/// ```
/// ```no_run
/// let pma = daachorse::CharwiseDoubleArrayAhoCorasick::<u32>::new(["a"]).unwrap();
/// let _ = unsafe { pma.find_iter_from_iter("a".bytes()) };
/// ```
/// ```compile_fail,E0133
/// let pma = daachorse::CharwiseDoubleArrayAhoCorasick::<u32>::new(["a"]).unwrap();
/// let _ = pma.find_overlapping_iter_from_iter("a".bytes());
/// ```
/// ```no_run
/// let pma = daachorse::CharwiseDoubleArrayAhoCorasick::<u32>::new(["a"]).unwrap();
/// let _ = unsafe { pma.find_overlapping_iter_from_iter("a".bytes()) };
/// ```
/// ```compile_fail,E0133
/// let pma = daachorse::CharwiseDoubleArrayAhoCorasick::<u32>::new(["a"]).unwrap();
/// let _ = pma.find_overlapping_no_suffix_iter_from_iter("a".bytes());
/// ```
/// ```no_run
/// let pma = daachorse::CharwiseDoubleArrayAhoCorasick::<u32>::new(["a"]).unwrap();
/// let _ = unsafe { pma.find_overlapping_no_suffix_iter_from_iter("a".bytes()) };
/// ```
pub struct CwFromIterIsUnsafe;

/// SAFE-API (C07/C09): `deserialize_unchecked` is `unsafe fn` on both automata.
///
/// ```compile_fail,E0133
/// let bytes: Vec<u8> = vec![];
/// let _ = daachorse::DoubleArrayAhoCorasick::<u32>::deserialize_unchecked(&bytes);
/// ```
/// ```no_run
/// let bytes: Vec<u8> = vec![];
/// let _ = unsafe { daachorse::DoubleArrayAhoCorasick::<u32>::deserialize_unchecked(&bytes) };
/// ```
/// ```compile_fail,E0133
/// let bytes: Vec<u8> = vec![];
/// let _ = daachorse::CharwiseDoubleArrayAhoCorasick::<u32>::deserialize_unchecked(&bytes);
/// ```
/// ```no_run
/// let bytes: Vec<u8> = vec![];
/// let _ = unsafe { daachorse::CharwiseDoubleArrayAhoCorasick::<u32>::deserialize_unchecked(&bytes) };
/// ```
pub struct DeserializeIsUnsafe;

/// ENC (C07): the tables cannot be reached or forged by safe external code.
///
/// ```compile_fail,E0616
/// let pma = daachorse::DoubleArrayAhoCorasick::<u32>::new(["a"]).unwrap();
/// let _ = &pma.states;
/// ```
/// ```compile_fail,E0616
/// let pma = daachorse::CharwiseDoubleArrayAhoCorasick::<u32>::new(["a"]).unwrap();
/// let _ = &pma.outputs;
/// ```
/// ```no_run
/// let pma = daachorse::DoubleArrayAhoCorasick::<u32>::new(["a"]).unwrap();
/// let _ = pma.num_states();
/// ```
/// The transition function is not callable from outside:
/// ```compile_fail,E0624
/// let pma = daachorse::DoubleArrayAhoCorasick::<u32>::new(["a"]).unwrap();
/// let _ = unsafe { pma.next_state_id_unchecked(0, b'a') };
/// ```
/// The iterator's cursor cannot be set from outside:
/// ```compile_fail,E0616
/// let pma = daachorse::DoubleArrayAhoCorasick::<u32>::new(["a"]).unwrap();
/// let mut it = pma.find_overlapping_no_suffix_iter("a");
/// it.state_id = 12345;
/// ```
/// ```no_run
/// let pma = daachorse::DoubleArrayAhoCorasick::<u32>::new(["a"]).unwrap();
/// let mut it = pma.find_overlapping_no_suffix_iter("a");
/// let _ = it.next();
/// ```
pub struct TablesArePrivate;

/// PURE-SELF / PURE-SYNC (C14): searching needs only `&A`; the automaton is `Send + Sync`, so a
/// shared automaton can be searched from several threads, and no search can modify it.
///
/// ```no_run
/// fn assert_send_sync<T: Send + Sync>() {}
/// assert_send_sync::<daachorse::DoubleArrayAhoCorasick<u32>>();
/// assert_send_sync::<daachorse::CharwiseDoubleArrayAhoCorasick<u32>>();
/// let pma = daachorse::DoubleArrayAhoCorasick::<u32>::new(["a"]).unwrap();
/// let shared: &daachorse::DoubleArrayAhoCorasick<u32> = &pma;
/// let f = move || shared.find_overlapping_iter("aa").count();
/// fn needs_sync_fn<F: Fn() -> usize + Sync + Send>(_: F) {}
/// needs_sync_fn(f);
/// ```
/// A value type with interior mutability makes the automaton `!Sync` (the bound is inherited, not forged):
/// ```compile_fail,E0277
/// fn assert_sync<T: Sync>() {}
/// assert_sync::<daachorse::DoubleArrayAhoCorasick<std::cell::Cell<u32>>>();
/// ```
/// Search methods cannot be called in a way that would require `&mut`: a shared reference suffices.
/// ```no_run
/// let pma = daachorse::CharwiseDoubleArrayAhoCorasick::<u32>::new(["a"]).unwrap();
/// let r1 = &pma;
/// let r2 = &pma;
/// let a = r1.find_iter("a");
/// let b = r2.find_overlapping_iter("a");
/// drop((a, b));
/// ```
pub struct SearchIsShared;

/// VAL-PARAM (C06): the value type is only required to be `Copy` for searching (parametricity).
///
/// ```no_run
/// #[derive(Clone, Copy)]
/// struct Opaque(#[allow(dead_code)] [u8; 3]);
/// let pma = daachorse::DoubleArrayAhoCorasick::with_values([("a", Opaque([1, 2, 3]))]).unwrap();
/// let _: Option<Opaque> = pma.find_iter("a").next().map(|m| m.value());
/// ```
/// `build` (index values) needs `TryFrom<usize>`:
/// ```compile_fail,E0277
/// #[derive(Clone, Copy)]
/// struct Opaque;
/// let _ = daachorse::DoubleArrayAhoCorasick::<Opaque>::new(["a"]);
/// ```
pub struct ValueIsOpaque;
